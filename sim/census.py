"""Shared-state census and fingerprint.

Enumerates what a thread or an earlier operation could leave behind in the process: every
non-module / non-function / non-class / non-logger object in the __dict__ of every loaded
ampycloud* module, every non-callable class attribute of classes defined there, function
attribute dicts and lru_cache wrappers, the global NumPy and Python RNG states, the identity of
dynamic.AMPYCLOUD_PRMS, cwd, and (optionally) matplotlib rcParams / figure numbers.

The fingerprint drives the *directed* pre-emption strategy (a search heuristic; it never
contributes to a verdict) and the "global parameters exactly as they were" monitors.
"""
import logging
import os
import random
import sys
import types

import numpy as np

_SKIP_TYPES = (types.ModuleType, types.FunctionType, types.BuiltinFunctionType, type,
               logging.Logger, types.MethodType, staticmethod, classmethod, property)


def _is_ampy(name):
    return name == 'ampycloud' or name.startswith('ampycloud.')


class Census:
    def __init__(self, with_mpl=False):
        self.with_mpl = with_mpl
        self._nmods = -1
        self._sizes = ()
        self.items = []      # (owner dict/obj, name, label)
        self.caches = []     # lru_cache wrappers
        self.mutables = []   # mutable default arguments / closure cells of ampycloud functions
        self.rebuild()

    # -- enumeration -------------------------------------------------------------------------
    def _mods(self):
        if len(sys.modules) != getattr(self, '_nsys', -1):
            self._nsys = len(sys.modules)
            self._modlist = [m for n, m in sorted(sys.modules.items())
                             if _is_ampy(n) and m is not None]
        return self._modlist

    def rebuild(self):
        mods = self._mods()
        self._nmods = len(mods)
        self.items, self.caches, self.mutables = [], [], []
        seen_cls = set()
        for mod in mods:
            mname = mod.__name__
            for name, val in list(vars(mod).items()):
                if name.startswith('__') and name.endswith('__'):
                    continue
                if hasattr(val, 'cache_info') and callable(val):
                    self.caches.append((f'{mname}.{name}', val))
                if isinstance(val, types.FunctionType):
                    if getattr(val, '__module__', '') == mname:
                        self._add_function(val, f'{mname}.{name}')
                    continue
                if isinstance(val, type):
                    if getattr(val, '__module__', '') == mname and val not in seen_cls:
                        seen_cls.add(val)
                        for an, av in list(vars(val).items()):
                            fn = av.__func__ if isinstance(av, (staticmethod, classmethod)) \
                                else (av.fget if isinstance(av, property) else av)
                            if isinstance(fn, types.FunctionType):
                                self._add_function(fn, f'{mname}.{val.__name__}.{an}')
                                continue
                            if an.startswith('__') and an.endswith('__'):
                                continue
                            if an == '_abc_impl' or callable(av) or isinstance(av, _SKIP_TYPES):
                                continue
                            self.items.append((val, an, f'{mname}.{val.__name__}.{an}'))
                    continue
                if isinstance(val, _SKIP_TYPES):
                    continue
                if getattr(type(val), '__module__', '').startswith('typing'):
                    continue
                self.items.append((mod, name, f'{mname}.{name}'))
        self._sizes = tuple(len(vars(m)) for m in mods)

    def _add_function(self, fn, label):
        """Places where a function can hide state: attributes, mutable defaults, closure cells
        (following functools.wraps chains)."""
        seen = set()
        while isinstance(fn, types.FunctionType) and id(fn) not in seen:
            seen.add(id(fn))
            if fn.__dict__:
                self.items.append((fn.__dict__, None, f'{label}.__dict__'))
            for k, dflt in enumerate(fn.__defaults__ or ()):
                if isinstance(dflt, (dict, list, set)):
                    self.mutables.append((dflt, f'{label}.__defaults__[{k}]'))
            for k, dflt in (fn.__kwdefaults__ or {}).items():
                if isinstance(dflt, (dict, list, set)):
                    self.mutables.append((dflt, f'{label}.__kwdefaults__[{k}]'))
            for k, cell in enumerate(fn.__closure__ or ()):
                try:
                    cont = cell.cell_contents
                except ValueError:
                    continue
                if isinstance(cont, (dict, list, set)):
                    self.mutables.append((cont, f'{label}.__closure__[{k}]'))
            fn = getattr(fn, '__wrapped__', None)

    def labels(self):
        return [lab for _, _, lab in self.items]

    # -- fingerprint -------------------------------------------------------------------------
    @staticmethod
    def _val_fp(val):
        if type(val) in (dict, list, set):      # plain containers only (not e.g. RcParams)
            try:
                return (id(val), len(val), hash(repr(val)) if len(val) <= 64 else 0)
            except Exception:
                return (id(val), len(val))
        if isinstance(val, np.ndarray):          # a scratch buffer refilled in place
            try:
                flat = val.reshape(-1)
                return (id(val), val.shape, hash(flat[:32].tobytes()), hash(flat[-32:].tobytes()))
            except Exception:
                return (id(val), val.shape)
        return id(val)

    def fingerprint(self, rng=True):
        mods = self._mods()
        if len(mods) != self._nmods or tuple(len(vars(m)) for m in mods) != self._sizes:
            self.rebuild()
        out = []
        for owner, name, _ in self.items:
            if name is None:
                out.append(tuple((k, id(v)) for k, v in owner.items()))
            elif isinstance(owner, types.ModuleType):
                out.append(self._val_fp(vars(owner).get(name)))
            else:
                out.append(self._val_fp(vars(owner).get(name)))
        for _, fn in self.caches:
            try:
                out.append(tuple(fn.cache_info()))
            except Exception:
                pass
        for obj, _ in self.mutables:
            try:
                out.append((len(obj), hash(repr(obj))))
            except Exception:
                out.append(len(obj))
        # interpreter-wide switches of the libraries underneath
        import warnings
        out.append((len(warnings.filters), hash(repr(warnings.filters[:8]))))
        out.append(hash(repr(sorted(np.geterr().items()))))
        out.append(tuple(lg.level for lg in self._loggers()))
        if rng:
            st = np.random.get_state(legacy=True)
            out.append((hash(st[1].tobytes()), st[2], st[3], st[4]))
            out.append(hash(random.getstate()))
        out.append(os.getcwd())
        if self.with_mpl:
            import matplotlib
            import matplotlib.pyplot as plt
            out.append(hash(repr(sorted(matplotlib.rcParams.items(), key=lambda kv: kv[0]))))
            out.append(tuple(plt.get_fignums()))
        return tuple(out)

    def _loggers(self):
        if getattr(self, '_lgs', None) is None or len(self._lgs[0]) != len(self._modlist):
            self._lgs = (list(self._modlist),
                         [logging.getLogger()] + [logging.getLogger(m.__name__)
                                                  for m in self._modlist])
        return self._lgs[1]

    def named_fingerprint(self):
        fp = self.fingerprint()
        labs = self.labels() + [f'cache:{n}' for n, _ in self.caches] + \
            [lab for _, lab in self.mutables] + ['warnings.filters', 'np.geterr', 'log levels'] + \
            ['np.random', 'random', 'cwd'] + (['rcParams', 'fignums'] if self.with_mpl else [])
        return dict(zip(labs, fp))
