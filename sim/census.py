"""Shared-state census and fingerprint.

Enumerates what a thread or an earlier operation could leave behind in the process: every
non-module / non-function / non-class / non-logger object in the __dict__ of every loaded
ampycloud* module, every non-callable class attribute of classes defined there, function
attribute dicts and lru_cache wrappers, the global NumPy and Python RNG states, the identity of
dynamic.AMPYCLOUD_PRMS, cwd, and (optionally) matplotlib rcParams / figure numbers.

The fingerprint drives the *directed* pre-emption strategy (a search heuristic; it never
contributes to a verdict) and the "global parameters exactly as they were" monitors.
"""
import logging
import os
import random
import sys
import types

import numpy as np

_SKIP_TYPES = (types.ModuleType, types.FunctionType, types.BuiltinFunctionType, type,
               logging.Logger, types.MethodType, staticmethod, classmethod, property)


def _is_ampy(name):
    return name == 'ampycloud' or name.startswith('ampycloud.')


class Census:
    def __init__(self, with_mpl=False):
        self.with_mpl = with_mpl
        self._nmods = -1
        self._sizes = ()
        self.items = []      # (owner dict/obj, name, label)
        self.caches = []     # lru_cache wrappers
        self.rebuild()

    # -- enumeration -------------------------------------------------------------------------
    def _mods(self):
        if len(sys.modules) != getattr(self, '_nsys', -1):
            self._nsys = len(sys.modules)
            self._modlist = [m for n, m in sorted(sys.modules.items())
                             if _is_ampy(n) and m is not None]
        return self._modlist

    def rebuild(self):
        mods = self._mods()
        self._nmods = len(mods)
        self.items, self.caches = [], []
        seen_cls = set()
        for mod in mods:
            mname = mod.__name__
            for name, val in list(vars(mod).items()):
                if name.startswith('__') and name.endswith('__'):
                    continue
                if hasattr(val, 'cache_info') and callable(val):
                    self.caches.append((f'{mname}.{name}', val))
                if isinstance(val, types.FunctionType):
                    if getattr(val, '__module__', '') == mname and val.__dict__:
                        self.items.append((val.__dict__, None, f'{mname}.{name}.__dict__'))
                    continue
                if isinstance(val, type):
                    if getattr(val, '__module__', '') == mname and val not in seen_cls:
                        seen_cls.add(val)
                        for an, av in list(vars(val).items()):
                            if an.startswith('__') and an.endswith('__'):
                                continue
                            if an == '_abc_impl' or callable(av) or isinstance(av, _SKIP_TYPES):
                                continue
                            self.items.append((val, an, f'{mname}.{val.__name__}.{an}'))
                    continue
                if isinstance(val, _SKIP_TYPES):
                    continue
                if getattr(type(val), '__module__', '').startswith('typing'):
                    continue
                self.items.append((mod, name, f'{mname}.{name}'))
        self._sizes = tuple(len(vars(m)) for m in mods)

    def labels(self):
        return [lab for _, _, lab in self.items]

    # -- fingerprint -------------------------------------------------------------------------
    @staticmethod
    def _val_fp(val):
        if isinstance(val, (dict, list, set)):
            try:
                return (id(val), len(val), hash(repr(val)))
            except Exception:
                return (id(val), len(val))
        return id(val)

    def fingerprint(self, rng=True):
        mods = self._mods()
        if len(mods) != self._nmods or tuple(len(vars(m)) for m in mods) != self._sizes:
            self.rebuild()
        out = []
        for owner, name, _ in self.items:
            if name is None:
                out.append(tuple((k, id(v)) for k, v in owner.items()))
            elif isinstance(owner, types.ModuleType):
                out.append(self._val_fp(vars(owner).get(name)))
            else:
                out.append(self._val_fp(vars(owner).get(name)))
        for _, fn in self.caches:
            try:
                out.append(tuple(fn.cache_info()))
            except Exception:
                pass
        if rng:
            st = np.random.get_state(legacy=True)
            out.append((hash(st[1].tobytes()), st[2], st[3], st[4]))
            out.append(hash(random.getstate()))
        out.append(os.getcwd())
        if self.with_mpl:
            import matplotlib
            import matplotlib.pyplot as plt
            out.append(hash(repr(sorted(matplotlib.rcParams.items(), key=lambda kv: kv[0]))))
            out.append(tuple(plt.get_fignums()))
        return tuple(out)

    def named_fingerprint(self):
        fp = self.fingerprint()
        labs = self.labels() + [f'cache:{n}' for n, _ in self.caches] + \
            ['np.random', 'random', 'cwd'] + (['rcParams', 'fignums'] if self.with_mpl else [])
        return dict(zip(labs, fp))
