"""Seed derivation, PRNG streams, environment pinning, repo import.

One integer (VERIF_SEED) decides everything: run i of property P gets
run_seed = sha256(f"{P}:{VERIF_SEED}:{i}")[:8]; inside a run independent random.Random streams
are derived by name so that adding a draw to one stream cannot shift another.
Nothing in this module reads a real clock or draws from a PRNG for logging.
"""
import hashlib
import os
import random
import sys

VERIF_DIR = os.path.dirname(os.path.dirname(os.path.abspath(__file__)))
WORK_DIR = os.path.join(VERIF_DIR, '.work')

PINNED_ENV = {
    'PYTHONHASHSEED': '0',
    'OMP_NUM_THREADS': '1',
    'OPENBLAS_NUM_THREADS': '1',
    'MKL_NUM_THREADS': '1',
    'NUMEXPR_NUM_THREADS': '1',
    'MPLBACKEND': 'Agg',
    'PYTHONDONTWRITEBYTECODE': '1',
}


def out_dir() -> str:
    """Where evidence/ and replays/ are written (VERIF_OUT is only for the self-tests)."""
    return os.path.abspath(os.environ.get('VERIF_OUT', VERIF_DIR))


def repo_dir() -> str:
    """The repository under test (VERIF_REPO is only for the sensitivity self-test's copies)."""
    return os.path.abspath(os.environ.get('VERIF_REPO', '/repo'))


def repo_src() -> str:
    return os.path.join(repo_dir(), 'src')


def use_repo() -> None:
    """Put the working tree's sources first on sys.path, so checks run the current tree."""
    src = repo_src()
    if sys.path[0] != src:
        if src in sys.path:
            sys.path.remove(src)
        sys.path.insert(0, src)
    for name in list(sys.modules):
        if name == 'ampycloud' or name.startswith('ampycloud.'):
            mod = sys.modules[name]
            fil = getattr(mod, '__file__', None) or ''
            if not os.path.abspath(fil).startswith(src):
                raise RuntimeError(f'{name} already imported from {fil}, not from {src}')


def master_seed() -> int:
    try:
        return int(os.environ.get('VERIF_SEED', '0'))
    except ValueError:
        return 0


def run_seed(prop: str, master: int, index) -> int:
    dig = hashlib.sha256(f'{prop}:{master}:{index}'.encode()).digest()
    return int.from_bytes(dig[:8], 'big')


def stream(seed: int, name: str) -> random.Random:
    dig = hashlib.sha256(f'{seed}/{name}'.encode()).digest()
    return random.Random(int.from_bytes(dig[:16], 'big'))


def sha(obj) -> str:
    """Short stable hash of a JSON-able / repr-able object."""
    if not isinstance(obj, (bytes, bytearray)):
        obj = repr(obj).encode()
    return hashlib.sha256(obj).hexdigest()[:16]


def procs() -> int:
    try:
        return max(1, int(os.environ.get('VERIF_PROCS', '16')))
    except ValueError:
        return 16


def pin_process() -> None:
    """Settings every simulating process applies once (after exec with PINNED_ENV)."""
    import warnings
    warnings.simplefilter('ignore')
    import logging
    logging.disable(logging.CRITICAL)


class HarnessError(Exception):
    """Something is wrong with the machinery (never reported as violation nor as success)."""


def in_fork(fn, *args, **kwargs):
    """Run fn(*args, **kwargs) in a fork of this (single-threaded) process and return its pickled
    result. Whatever fn leaves behind in process-global state dies with the child, so every
    simulated execution starts from the same state and is replayable on its own."""
    import pickle
    rfd, wfd = os.pipe()
    pid = os.fork()
    if pid == 0:
        code = 1
        try:
            os.close(rfd)
            try:
                payload = ('ok', fn(*args, **kwargs))
            except BaseException as exc:      # reported to the parent, never swallowed
                import traceback
                payload = ('err', f'{type(exc).__name__}: {exc}\n{traceback.format_exc()[-1500:]}')
            with os.fdopen(wfd, 'wb') as fil:
                pickle.dump(payload, fil)
            code = 0
        finally:
            os._exit(code)
    os.close(wfd)
    with os.fdopen(rfd, 'rb') as fil:
        data = fil.read()
    os.waitpid(pid, 0)
    if not data:
        raise HarnessError('forked execution died without a result')
    kind, val = pickle.loads(data)
    if kind == 'err':
        raise HarnessError('forked execution failed: ' + val)
    return val


class Zygote:
    """A fork of this process taken *now* (before anything else runs here) that stays alive and,
    on request, forks a grandchild to evaluate fn(*args): every evaluation starts from the
    process state at the time the zygote was created, however dirty the requesting process has
    become since. Used for history-free reference results."""

    def __init__(self, fn):
        import pickle
        self._pickle = pickle
        req_r, req_w = os.pipe()
        res_r, res_w = os.pipe()
        self.pid = os.fork()
        if self.pid == 0:
            code = 0
            try:
                os.close(req_w)
                os.close(res_r)
                with os.fdopen(req_r, 'rb') as rin, os.fdopen(res_w, 'wb') as rout:
                    while True:
                        try:
                            args = pickle.load(rin)
                        except EOFError:
                            break
                        try:
                            payload = ('ok', in_fork(fn, *args))
                        except BaseException as exc:
                            payload = ('err', f'{type(exc).__name__}: {exc}')
                        pickle.dump(payload, rout)
                        rout.flush()
            except BaseException:
                code = 1
            finally:
                os._exit(code)
        os.close(req_r)
        os.close(res_w)
        self._req = os.fdopen(req_w, 'wb')
        self._res = os.fdopen(res_r, 'rb')

    def __call__(self, *args):
        self._pickle.dump(args, self._req)
        self._req.flush()
        kind, val = self._pickle.load(self._res)
        if kind == 'err':
            raise HarnessError('zygote evaluation failed: ' + val)
        return val

    def close(self):
        try:
            self._req.close()
            self._res.close()
            os.waitpid(self.pid, 0)
        except Exception:
            pass
