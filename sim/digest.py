"""Bit-exact digests of chunk state and typed, deep equality of caller-owned objects."""
import hashlib
import numpy as np
import pandas as pd


def _h(*parts) -> str:
    m = hashlib.sha256()
    for p in parts:
        if isinstance(p, str):
            p = p.encode()
        elif not isinstance(p, (bytes, bytearray, memoryview)):
            p = repr(p).encode()
        m.update(p)
        m.update(b'\x00')
    return m.hexdigest()[:20]


def _series_bytes(ser: pd.Series):
    """Bit-exact content of one column: raw bytes for numeric/bool dtypes, typed reprs otherwise."""
    dt = ser.dtype
    if isinstance(dt, np.dtype) and dt.kind in 'iufb':
        return np.ascontiguousarray(ser.to_numpy()).tobytes()
    return repr([(type(v).__name__, repr(v)) for v in ser.tolist()]).encode()


def index_desc(idx: pd.Index) -> str:
    return _h(type(idx).__name__, str(idx.dtype), repr(idx.names),
              repr([(type(v).__name__, repr(v)) for v in idx.tolist()]))


def frame_parts(df) -> dict:
    """Per-column digests of a DataFrame (or a marker for None)."""
    if df is None:
        return {'<none>': 'none'}
    if not isinstance(df, pd.DataFrame):
        return {'<notframe>': _h(type(df).__name__, repr(df))}
    out = {'<columns>': _h(repr([(type(c).__name__, repr(c)) for c in df.columns])),
           '<index>': index_desc(df.index), '<attrs>': _h(repr(df.attrs)),
           '<type>': type(df).__name__}
    for pos, col in enumerate(df.columns):
        ser = df.iloc[:, pos]
        out[f'{col}'] = _h(str(ser.dtype), _series_bytes(ser))
    return out


def frame_digest(df) -> str:
    return _h(repr(sorted(frame_parts(df).items())))


def _call(fn):
    try:
        return ('ok', fn())
    except BaseException as exc:  # the outcome *is* the exception type
        return ('exc', type(exc).__name__)


def chunk_parts(chunk, messages: bool = True) -> dict:
    """All observable state of a CeiloChunk, as a flat dict of component digests.

    Keys look like 'data.group_id', 'slices.isolated', 'n_groups', 'msg.layers', so that a
    mismatch can be named by component.
    """
    out = {}
    for k, v in frame_parts(chunk.data).items():
        out[f'data.{k}'] = v
    for which in ('slices', 'groups', 'layers'):
        for k, v in frame_parts(getattr(chunk, which)).items():
            out[f'{which}.{k}'] = v
        out[f'n_{which}'] = repr(_call(lambda w=which: getattr(chunk, f'n_{w}')))
        if messages:
            out[f'msg.{which}'] = repr(_call(lambda w=which: chunk.metar_msg(w)))
    out['flag'] = repr(chunk.clouds_above_msa_buffer)
    out['prms'] = _h(typed_repr(chunk.prms))
    out['geoloc'] = repr(chunk.geoloc)
    out['ref_dt'] = repr(chunk.ref_dt)
    return out


def parts_digest(parts: dict) -> str:
    return _h(repr(sorted(parts.items())))


def chunk_digest(chunk, messages: bool = True) -> str:
    return parts_digest(chunk_parts(chunk, messages))


def diff_parts(a: dict, b: dict) -> list:
    keys = sorted(set(a) | set(b))
    return [k for k in keys if a.get(k) != b.get(k)]


def typed_repr(obj) -> str:
    """A repr in which 1, 1.0 and True, list and tuple, are all different."""
    if isinstance(obj, dict):
        return '{' + ','.join(f'{typed_repr(k)}:{typed_repr(v)}' for k, v in obj.items()) + '}' \
            + ('' if type(obj) is dict else f'<{type(obj).__name__}>')
    if isinstance(obj, (list, tuple)):
        return type(obj).__name__ + '[' + ','.join(typed_repr(v) for v in obj) + ']'
    if isinstance(obj, float) and obj != obj:
        return 'float:nan'
    if isinstance(obj, pd.DataFrame):
        return 'frame:' + frame_digest(obj)
    if isinstance(obj, np.ndarray):
        return f'ndarray:{obj.dtype}:{obj.shape}:' + _h(obj.tobytes() if obj.dtype != object
                                                        else repr(obj.tolist()))
    return f'{type(obj).__name__}:{obj!r}'


def typed_diff(a, b, path='') -> list:
    """Paths at which two nested dict/list structures differ (typed). Key order is compared."""
    if isinstance(a, dict) and isinstance(b, dict) and type(a) is type(b):
        out = []
        if list(a.keys()) != list(b.keys()):
            if set(a.keys()) != set(b.keys()):
                out.append(f'{path}<keys:{sorted(map(str, set(a) ^ set(b)))}>')
            else:
                out.append(f'{path}<key-order>')
        for k in a:
            if k in b:
                out += typed_diff(a[k], b[k], f'{path}{k}.')
        return out
    if isinstance(a, (list, tuple)) and type(a) is type(b) and len(a) == len(b):
        out = []
        for i, (x, y) in enumerate(zip(a, b)):
            out += typed_diff(x, y, f'{path}{i}.')
        return out
    if typed_repr(a) != typed_repr(b):
        return [path.rstrip('.') or '<root>']
    return []


def rng_state_digest() -> str:
    st = np.random.get_state()
    return _h(st[0], np.asarray(st[1]).tobytes(), st[2], st[3], repr(float(st[4])))


def rng_state_equal(a, b) -> bool:
    return (a[0] == b[0] and np.array_equal(a[1], b[1]) and a[2] == b[2] and a[3] == b[3]
            and a[4] == b[4])
