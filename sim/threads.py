"""Baton scheduler for real threads running real ampycloud code.

Exactly one worker thread runs at any time; every other worker is parked on its own semaphore.
Pre-emption points are `line` events of sys.settrace in frames whose code lies under the
ampycloud source directory. A scheduler object (seeded strategy, or a recorded run-length list)
decides at every pre-emption point who runs next, so one seed is one exactly repeatable
execution. numpy / pandas / scikit-learn calls are atomic steps.
"""
import os
import sys
import threading

from . import kernel


class StepCap(BaseException):
    """Raised inside a worker that exceeded its step budget (bounded-liveness oracle)."""


class Injected(Exception):
    """Default exception type injected at a line event."""


class InjectedBase(BaseException):
    """BaseException flavour (KeyboardInterrupt-like) for injection."""


def src_prefix():
    return os.path.join(kernel.repo_src(), 'ampycloud') + os.sep


ACTIVE = None      # the simulation currently running in this process (read by the logical clock)

WATCH_FNS = ('ncomp_from_gmm', '_setup_prms', 'metarize', 'tmp_seed', 'find_groups',
             'find_slices', 'find_layers', 'adjust_nested_dict', 'check_data_consistency')


class ThreadSim:
    def __init__(self, jobs, sched, step_caps=None, census=None, inject=None, join_timeout=600):
        self.jobs = jobs
        self.n = len(jobs)
        self.sched = sched
        self.caps = step_caps or [None] * self.n
        self.census = census
        self.inject = inject
        self.join_timeout = join_timeout
        self.prefix = src_prefix()
        self.sems = [threading.Semaphore(0) for _ in range(self.n)]
        self.done = [False] * self.n
        self.started = [False] * self.n
        self.results = [None] * self.n
        self.steps = [0] * self.n
        self.gstep = 0
        self.trace_hash = [0] * self.n
        self.cur_fn = [None] * self.n
        self.stack_fns = [frozenset()] * self.n
        self.schedule = []          # run-length list [[worker, n_line_events], ...]
        self.switches = 0
        self.cores = set()          # ordered pairs of functions in flight at a switch
        self.probes = {}
        self.current = None
        self.all_done = threading.Event()
        self.error = None
        self.inj_count = 0
        self.inj_fired = None
        self.seg_fp = None
        self.entry = [False] * self.n   # next line event of this worker is a function entry
        self.is_entry = False

    # -- helpers -----------------------------------------------------------------------------
    def runnable(self, exclude=None):
        return [i for i in range(self.n) if not self.done[i] and i != exclude]

    def _bump(self, key, n=1):
        self.probes[key] = self.probes.get(key, 0) + n

    def _stack(self, frame):
        out = set()
        while frame is not None:
            if frame.f_code.co_filename.startswith(self.prefix):
                out.add(frame.f_code.co_name)
            frame = frame.f_back
        return frozenset(out)

    def _switch(self, cur, nxt, frame):
        """Hand the baton from cur (parked here) to nxt."""
        self.switches += 1
        self.stack_fns[cur] = self._stack(frame) if frame is not None else frozenset()
        if self.started[nxt] and not self.done[nxt] and frame is not None:
            self.cores.add((self.cur_fn[cur], self.cur_fn[nxt]))
            both = self.stack_fns[cur] & self.stack_fns[nxt]
            for fn in WATCH_FNS:
                if fn in both:
                    self._bump(f'both_inside_{fn}')
            self._bump('switch_while_both_in_flight')
        self.schedule.append([nxt, 0])
        self.current = nxt
        self.sems[nxt].release()
        self.sems[cur].acquire()
        # resumed
        if self.census is not None:
            self.seg_fp = self.census.fingerprint()

    # -- tracing -----------------------------------------------------------------------------
    def _global_trace(self, wid):
        prefix = self.prefix

        def local(frame, event, arg):
            if event == 'line':
                self._at_line(wid, frame)
            return local

        def glob(frame, event, arg):
            if event == 'call' and frame.f_code.co_filename.startswith(prefix):
                self.entry[wid] = True
                return local
            return None
        return glob

    def _at_line(self, wid, frame):
        self.steps[wid] += 1
        self.gstep += 1
        self.schedule[-1][1] += 1
        code = frame.f_code
        self.trace_hash[wid] = hash((self.trace_hash[wid], code.co_firstlineno, frame.f_lineno))
        self.cur_fn[wid] = code.co_name
        self.is_entry = self.entry[wid]
        self.entry[wid] = False
        cap = self.caps[wid]
        if cap is not None and self.steps[wid] > cap:
            raise StepCap(f'worker {wid} exceeded {cap} line events')
        inj = self.inject
        if inj is not None and self.inj_fired is None and inj['worker'] == wid \
                and inj['region'](frame):
            self.inj_count += 1
            if self.inj_count == inj['at']:
                self.inj_fired = (code.co_name, frame.f_lineno)
                raise inj['exc']('injected at %s:%d' % (code.co_name, frame.f_lineno))
        nxt = self.sched.at_line(self, wid, frame)
        if nxt is not None and nxt != wid and not self.done[nxt]:
            self._switch(wid, nxt, frame)

    # -- workers -----------------------------------------------------------------------------
    def _worker(self, wid):
        self.sems[wid].acquire()
        self.started[wid] = True
        if self.census is not None:
            self.seg_fp = self.census.fingerprint()
        sys.settrace(self._global_trace(wid))
        try:
            try:
                self.results[wid] = ('ok', self.jobs[wid]())
            except StepCap as exc:
                self.results[wid] = ('runaway', str(exc))
            except BaseException as exc:  # outcome = exception type
                self.results[wid] = ('exc', type(exc).__name__, repr(exc)[:300])
        finally:
            sys.settrace(None)
            self.done[wid] = True
            # this segment ended because the worker ran to completion (not because it was parked
            # at its n-th line event): the replay scheduler must let it finish, too
            if self.schedule and self.schedule[-1][0] == wid and len(self.schedule[-1]) == 2:
                self.schedule[-1].append('fin')
            self.stack_fns[wid] = frozenset()
            rest = self.runnable()
            if rest:
                nxt = self.sched.on_finish(self, wid, rest)
                self.schedule.append([nxt, 0])
                self.current = nxt
                self.sems[nxt].release()
            else:
                self.all_done.set()

    def run(self):
        global ACTIVE
        ACTIVE = self
        threads = [threading.Thread(target=self._worker, args=(i,), name=f'simworker-{i}',
                                    daemon=True) for i in range(self.n)]
        for thr in threads:
            thr.start()
        first = self.sched.first(self, list(range(self.n)))
        self.schedule.append([first, 0])
        self.current = first
        self.sems[first].release()
        if not self.all_done.wait(self.join_timeout):
            raise kernel.HarnessError(
                f'possible deadlock: workers not finished after {self.join_timeout}s '
                f'(done={self.done}, current={self.current}, steps={self.steps})')
        for thr in threads:
            thr.join(5)
        return self

    def compact_schedule(self):
        """Run-length list [[worker, n_line_events(, 'fin')], ...] with adjacent segments of one
        worker merged; 'fin' marks a segment at whose end the worker had finished."""
        out = []
        for seg in self.schedule:
            w, n = seg[0], seg[1]
            if out and out[-1][0] == w and len(out[-1]) == 2:
                out[-1][1] += n
            else:
                out.append([w, n])
            if len(seg) > 2:
                out[-1] = [out[-1][0], out[-1][1], 'fin']
        return out


# ------------------------------------------------------------------------------------------
# strategies: every choice comes from self.rng (the run's `sched` stream)
# ------------------------------------------------------------------------------------------
class _Base:
    name = 'base'

    def __init__(self, rng):
        self.rng = rng

    def first(self, sim, runnable):
        return self.rng.choice(runnable)

    def on_finish(self, sim, wid, rest):
        return self.rng.choice(rest)

    def at_line(self, sim, wid, frame):
        return None

    def _other(self, sim, wid):
        rest = sim.runnable(exclude=wid)
        return self.rng.choice(rest) if rest else None


class Uniform(_Base):
    """Switch at every line event with probability p."""

    def __init__(self, rng, p):
        super().__init__(rng)
        self.p = p
        self.name = f'uniform({p})'

    def at_line(self, sim, wid, frame):
        if self.rng.random() < self.p:
            return self._other(sim, wid)
        return None


class FewSwitch(_Base):
    """k switch positions drawn uniformly over the total reference step count."""

    def __init__(self, rng, k, total_steps):
        super().__init__(rng)
        self.points = sorted(rng.randrange(1, max(2, total_steps)) for _ in range(k))
        self.name = f'few-switch({k})'

    def at_line(self, sim, wid, frame):
        if self.points and sim.gstep >= self.points[0]:
            self.points.pop(0)
            return self._other(sim, wid)
        return None


class PCT(_Base):
    """Random priorities, d priority-change points (Burckhardt et al. style)."""

    def __init__(self, rng, n_workers, d, total_steps):
        super().__init__(rng)
        prio = list(range(d + 1, d + 1 + n_workers))
        rng.shuffle(prio)
        self.prio = prio
        self.points = sorted(rng.randrange(1, max(2, total_steps)) for _ in range(d))
        self.low = d
        self.name = f'pct({d})'

    def _best(self, cands):
        return max(cands, key=lambda w: self.prio[w])

    def first(self, sim, runnable):
        return self._best(runnable)

    def on_finish(self, sim, wid, rest):
        return self._best(rest)

    def at_line(self, sim, wid, frame):
        if self.points and sim.gstep >= self.points[0]:
            self.points.pop(0)
            self.prio[wid] = self.low
            self.low -= 1
            best = self._best(sim.runnable())
            return best if best != wid else None
        return None


class Directed(_Base):
    """Park a worker (p = 1/2) right after it changed process-global state within its current
    segment, and let another worker run a long segment: switches are placed inside windows
    where global state is in flight. Search heuristic only."""
    name = 'directed'

    def __init__(self, rng, p_park=0.5, p_background=0.0005):
        super().__init__(rng)
        self.p_park = p_park
        self.p_bg = p_background
        self.hold = {}       # worker -> remaining steps before it may be pre-empted again

    def at_line(self, sim, wid, frame):
        left = self.hold.get(wid, 0)
        if left > 0:
            self.hold[wid] = left - 1
            return None
        fp = sim.census.fingerprint()
        if fp != sim.seg_fp:
            sim._bump('dirty_window_seen')
            sim.seg_fp = fp
            if self.rng.random() < self.p_park:
                nxt = self._other(sim, wid)
                if nxt is not None:
                    sim._bump('parked_while_dirty')
                    self.hold[nxt] = self.rng.choice([50, 400, 3000, 100000])
                    return nxt
        elif self.rng.random() < self.p_bg:
            return self._other(sim, wid)
        return None


class FunctionAligned(_Base):
    """Park worker A at its n-th entry into function X, run worker B until its m-th entry into
    function Y, then release A."""

    def __init__(self, rng, n_workers, fn_counts):
        super().__init__(rng)
        fns = sorted(fn_counts)
        self.a, self.b = rng.sample(range(n_workers), 2) if n_workers > 1 else (0, 0)
        self.fx = rng.choice(fns)
        self.fy = rng.choice(fns)
        self.nx = rng.randint(1, max(1, min(fn_counts[self.fx], 6)))
        self.ny = rng.randint(1, max(1, min(fn_counts[self.fy], 6)))
        self.seen = {}
        self.phase = 0
        self.name = f'function-aligned({self.fx}#{self.nx},{self.fy}#{self.ny})'

    def first(self, sim, runnable):
        return self.a if self.a in runnable else runnable[0]

    def on_finish(self, sim, wid, rest):
        for pref in (self.b, self.a):
            if pref in rest:
                return pref
        return rest[0]

    def at_line(self, sim, wid, frame):
        if not sim.is_entry:
            return None
        code = frame.f_code
        key = (wid, code.co_name)
        self.seen[key] = self.seen.get(key, 0) + 1
        if self.phase == 0 and wid == self.a and code.co_name == self.fx \
                and self.seen[key] == self.nx:
            self.phase = 1
            return self.b if not sim.done[self.b] else None
        if self.phase == 1 and wid == self.b and code.co_name == self.fy \
                and self.seen[key] == self.ny:
            self.phase = 2
            return self.a if not sim.done[self.a] else None
        return None


class Replay(_Base):
    """Follows a recorded run-length list [[worker, n_line_events(, 'fin')], ...]: park `worker`
    at its n-th line event of the segment (or, for a 'fin' segment, let it run to completion),
    then the next entry. When the list is exhausted the remaining workers run to completion in
    index order."""
    name = 'replay'

    def __init__(self, schedule):
        super().__init__(None)
        self.sched = [list(s) for s in schedule]
        self.pos = 0
        self.left = 0

    def _next_entry(self, sim, exclude=None):
        while self.pos < len(self.sched):
            seg = self.sched[self.pos]
            w, n = seg[0], seg[1]
            self.pos += 1
            if 0 <= w < sim.n and not sim.done[w] and w != exclude:
                # a segment recorded as 'fin' ran until its worker finished
                self.left = (1 << 60) if len(seg) > 2 else n
                return w
        self.left = 1 << 60
        rest = sim.runnable(exclude=exclude)
        return rest[0] if rest else None

    def first(self, sim, runnable):
        return self._next_entry(sim)

    def on_finish(self, sim, wid, rest):
        nxt = self._next_entry(sim, exclude=wid)
        return nxt if nxt is not None else rest[0]

    def at_line(self, sim, wid, frame):
        # called after the event was counted: park the worker *at* its n-th line event
        self.left -= 1
        if self.left <= 0:
            nxt = self._next_entry(sim, exclude=wid)
            if nxt is None:
                self.left = 1 << 60
            return nxt
        return None


def reference_run(job, lines=False, census=None):
    """Run one job alone under the same tracer: (result, n_line_events, trace_hash, fn_counts
    [, {(file, line): [step indices at which that source line is reached]}]). With a census the
    dirty profile (see dirty_profile) is left in reference_run.last_dirty."""
    class Solo(_Base):
        def __init__(self):
            super().__init__(None)
            self.fn_counts = {}
            self.line_steps = {}
            self.last_fp = None
            self.dirty = []

        def first(self, sim, runnable):
            return 0

        def at_line(self, sim, wid, frame):
            if census is not None:
                fp = census.fingerprint()
                if self.last_fp is not None and fp != self.last_fp and len(self.dirty) < 24:
                    self.dirty.append(sim.steps[wid])
                self.last_fp = fp
            if sim.is_entry:
                nm = frame.f_code.co_name
                self.fn_counts[nm] = self.fn_counts.get(nm, 0) + 1
            if lines:
                key = (os.path.basename(frame.f_code.co_filename), frame.f_lineno)
                lst = self.line_steps.setdefault(key, [])
                if len(lst) < 64:
                    lst.append(sim.steps[wid])
            return None
    solo = Solo()
    sim = ThreadSim([job], solo).run()
    reference_run.last_dirty = solo.dirty
    if lines:
        return sim.results[0], sim.steps[0], sim.trace_hash[0], solo.fn_counts, solo.line_steps
    return sim.results[0], sim.steps[0], sim.trace_hash[0], solo.fn_counts


def call_with_injection(fn, at, exc=Injected, region=None):
    """Call fn() on this thread with an exception raised from the trace function at the `at`-th
    line event inside ampycloud code (optionally restricted by region(frame)). The exception
    surfaces in the traced frame exactly like an error from a dependency.
    Returns (('ok', value) | ('exc', type name), fired (function, line) | None, n_line_events)."""
    prefix = src_prefix()
    count = [0]
    fired = []

    def local(frame, event, arg):
        if event == 'line' and (region is None or region(frame)):
            count[0] += 1
            if count[0] == at:
                fired.append((frame.f_code.co_name, frame.f_lineno))
                raise exc(f'injected at {frame.f_code.co_name}:{frame.f_lineno}')
        return local

    def glob(frame, event, arg):
        if event == 'call' and frame.f_code.co_filename.startswith(prefix):
            return local
        return None
    sys.settrace(glob)
    try:
        res = ('ok', fn())
    except BaseException as err:
        res = ('exc', type(err).__name__)
    finally:
        sys.settrace(None)
    return res, (fired[0] if fired else None), count[0]


def dirty_profile(job, census, cap=24):
    """Run one job alone and return the line-event indices right after which the shared-state
    fingerprint changed, i.e. where this job had process-global state in flight. On a tree that
    keeps all working state on the chunk the list is empty."""
    class Prof(_Base):
        def __init__(self):
            super().__init__(None)
            self.last = None
            self.points = []

        def first(self, sim, runnable):
            return 0

        def at_line(self, sim, wid, frame):
            fp = census.fingerprint()
            if self.last is not None and fp != self.last and len(self.points) < cap:
                self.points.append(sim.steps[wid])
            self.last = fp
            return None
    prof = Prof()
    ThreadSim([job], prof, census=census).run()
    return prof.points


def window_schedules(dirty, steps, rng, max_switches=4, cap=60):
    """Schedules (run-length lists for Replay) whose switches all sit at the edges of windows in
    which some worker has global state in flight: candidates are the line events just before and
    just after every dirty point. Two workers; up to max_switches alternating switches."""
    cands = []
    for w in (0, 1):
        pts = sorted({max(1, d + off) for d in dirty[w] for off in (-1, 0)})
        cands.append([p for p in pts if p < steps[w]])
    out = []

    def extend(seq, cur, pos):
        # seq: list of (worker, absolute step at which it is parked)
        if seq:
            out.append(list(seq))
        if len(seq) >= max_switches:
            return
        for p in cands[cur]:
            if p > pos[cur]:
                nxt = dict(pos)
                nxt[cur] = p
                extend(seq + [(cur, p)], 1 - cur, nxt)
    for first in (0, 1):
        extend([], first, {0: 0, 1: 0})
    if len(out) > cap:
        out = rng.sample(out, cap)
    scheds = []
    for seq in out:
        pos = {0: 0, 1: 0}
        sched = []
        for w, p in seq:
            sched.append([w, p - pos[w]])
            pos[w] = p
        last = seq[-1][0]
        sched += [[1 - last, 1 << 40], [last, 1 << 40]]
        scheds.append(sched)
    return scheds
