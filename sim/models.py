"""Small executable reference models: the stage machine (C14) and the parameter store (C11/C12)."""
import copy

# ------------------------------------------------------------------------------------------
# C14: stage machine
# ------------------------------------------------------------------------------------------
STAGE_OPS = ['FS', 'FG', 'FL', 'MZs', 'MZg', 'MZl', 'MMs', 'MMg', 'MMl', 'SNAP']
_LEVEL = {'s': 'slices', 'g': 'groups', 'l': 'layers'}


class StageModel:
    """Five bits. s/g/l: stage computed; iso: slice isolation flags computed by a grouping since
    the slices table was last rebuilt; nc: component counts written by a layering since the
    groups table was last rebuilt."""

    def __init__(self, s=0, g=0, l=0, iso=0, nc=0):
        self.s, self.g, self.l, self.iso, self.nc = s, g, l, iso, nc

    def key(self):
        return (self.s, self.g, self.l, self.iso, self.nc)

    def copy(self):
        return StageModel(*self.key())

    def prerequisite_ok(self, op) -> bool:
        if op == 'FS' or op == 'SNAP':
            return True
        if op == 'FG':
            return bool(self.s)
        if op == 'FL':
            return bool(self.g)
        lvl = op[2]
        return bool(getattr(self, lvl))

    def refusal_licensed(self, op) -> bool:
        """May this call raise AmpycloudError?"""
        if not self.prerequisite_ok(op):
            return True
        return bool(self.l) and op in ('FS', 'FG', 'MZs', 'MZg')

    def must_refuse(self, op) -> bool:
        return not self.prerequisite_ok(op)

    def apply(self, op) -> None:
        """State after a call that returned normally."""
        if op == 'FS':
            self.s, self.iso = 1, 0
        elif op == 'FG':
            self.g, self.iso, self.nc = 1, 1, 0
        elif op == 'FL':
            self.l, self.nc = 1, 1
        elif op == 'MZs':
            self.iso = 0
        elif op == 'MZg':
            self.nc = 0

    def successors(self, op) -> list:
        """Acceptable model states after a call that returned normally (first = what the pinned
        tree does). A call that rebuilds the slices table while groups exist may leave the
        isolation flags as after slicing or as after grouping - both are tables of the canonical
        run; likewise a call that rebuilds the groups table while layers exist may leave the
        component counts as after grouping or as after layering."""
        base = self.copy()
        base.apply(op)
        out = [base]
        if op in ('FS', 'MZs') and base.g:
            alt = base.copy()
            alt.iso = 1
            out.append(alt)
        if op in ('FG', 'MZg') and base.l:
            alt = base.copy()
            alt.nc = 1
            out.append(alt)
        return out

    def expected(self, traj) -> dict:
        """Assemble the expected component digests from the canonical trajectory
        traj[0..3] = parts after construction, FS, FG, FL."""
        stage = self.s + self.g + self.l
        out = {}
        for k, v in traj[stage].items():
            if k.startswith('data.') or k.startswith('n_'):
                out[k] = v
        src_s = traj[0] if not self.s else (traj[2] if self.iso else traj[1])
        src_g = traj[0] if not self.g else (traj[3] if self.nc else traj[2])
        src_l = traj[0] if not self.l else traj[3]
        for name, src in (('slices', src_s), ('groups', src_g), ('layers', src_l)):
            for k, v in src.items():
                if k.startswith(name + '.'):
                    out[k] = v
        out['msg.slices'] = traj[1 if self.s else 0]['msg.slices']
        out['msg.groups'] = traj[2 if self.g else 0]['msg.groups']
        out['msg.layers'] = traj[3 if self.l else 0]['msg.layers']
        for k in ('flag', 'prms', 'geoloc', 'ref_dt'):
            out[k] = traj[0][k]
        return out


def reachable_stage_pairs():
    """All (model state, op) pairs reachable when every licensed-optional refusal may go either
    way; used as the denominator of the coverage measure."""
    seen, todo, pairs = set(), [StageModel()], set()
    while todo:
        st = todo.pop()
        if st.key() in seen:
            continue
        seen.add(st.key())
        for op in STAGE_OPS:
            pairs.add((st.key(), op))
            if st.prerequisite_ok(op):
                todo.extend(st.successors(op))
    return pairs


# ------------------------------------------------------------------------------------------
# C11 / C12: parameter store
# ------------------------------------------------------------------------------------------
def model_adjust(ref: dict, new: dict) -> dict:
    """Reference semantics of the documented recursive override: known keys only, dict values
    recurse, anything else replaces. Works on (and returns) `ref`, like the original."""
    for key, item in new.items():
        if key not in ref:
            continue
        if isinstance(item, dict):
            ref[key] = model_adjust(ref[key], item)
        else:
            ref[key] = item
    return ref


def model_snapshot(glob: dict, percall) -> dict:
    snap = copy.deepcopy(glob)
    if percall is not None:
        snap = model_adjust(snap, copy.deepcopy(percall))
    return snap


def unknown_paths(ref: dict, new: dict, prefix=()) -> list:
    """Paths of `new` the documented override ignores (one warning each)."""
    out = []
    for key, item in new.items():
        if key not in ref:
            out.append(prefix + (key,))
        elif isinstance(item, dict) and isinstance(ref[key], dict):
            out += unknown_paths(ref[key], item, prefix + (key,))
    return out


def get_path(dct, path):
    for k in path:
        dct = dct[k]
    return dct


def set_path(dct, path, value):
    for k in path[:-1]:
        dct = dct[k]
    dct[path[-1]] = value


def leaf_paths(dct, prefix=()):
    out = []
    for k, v in dct.items():
        if isinstance(v, dict):
            out += leaf_paths(v, prefix + (k,))
        else:
            out.append(prefix + (k,))
    return out
