"""Worker processes, aggregation in run-index order, replay confirmation, exit codes, evidence.

Contract of a check module `mod` (checks/cXX.py):
  mod.PROP                     property id
  mod.plan(tier, master)       -> list of JSON-able run descriptors (dicts), any order-stable list
  mod.execute(run)             -> dict(n_eval, sigs, counters, samples, steps, violations, sets)
  mod.replay(case)             -> violation dict or None (re-executes one recorded case)
  mod.describe(tier, agg)      -> dict(rule=..., assumptions=[...], extra={...})
A violation dict has: clause, signature (dict of fields), case (JSON-able, self-contained),
observed (free text). Violations are minimised by the module before they are returned.
"""
import concurrent.futures as cf
import faulthandler
import importlib
import json
import multiprocessing as mp
import os
import subprocess
import sys
import time
import traceback

from . import kernel

EXIT_OK, EXIT_VIOLATION, EXIT_HARNESS = 0, 1, 2
_MOD = None
_DEADLINE = None


def _init(modname, deadline):
    global _MOD, _DEADLINE
    _MOD = importlib.import_module(modname)
    _DEADLINE = deadline


def _work(run):
    if _DEADLINE is not None and time.time() > _DEADLINE:
        return {'skipped': True}
    tmo = int(os.environ.get('VERIF_RUN_TIMEOUT', '1800'))
    faulthandler.dump_traceback_later(tmo, exit=True)
    try:
        out = _MOD.execute(run)
        out.setdefault('violations', [])
        return out
    except BaseException:
        return {'harness_error': traceback.format_exc()}
    finally:
        faulthandler.cancel_dump_traceback_later()


def _eval_case(modname, case):
    faulthandler.dump_traceback_later(int(os.environ.get('VERIF_RUN_TIMEOUT', '1800')), exit=True)
    try:
        return importlib.import_module(modname).replay(case)
    finally:
        faulthandler.cancel_dump_traceback_later()


def load_known(prop):
    pth = os.path.join(kernel.VERIF_DIR, 'known_findings.json')
    if not os.path.exists(pth):
        return []
    with open(pth, encoding='utf-8') as fil:
        return [e for e in json.load(fil).get('findings', []) if e.get('property') == prop]


def match_known(violation, known):
    """An *open* finding suppresses exactly the violations it describes; 'fixed' suppresses nothing."""
    sig = violation['signature']
    for ent in known:
        if ent.get('status') != 'open':
            continue
        m = ent.get('match', {})
        ok = True
        for key, want in m.items():
            if key.endswith('__subset'):
                have = sig.get(key[:-8], [])
                if not set(have) <= set(want):
                    ok = False
            elif sig.get(key) != want:
                ok = False
        if ok:
            return ent
    return None


def sig_key(sig: dict) -> str:
    return json.dumps(sig, sort_keys=True)


def fresh_replay(path):
    """Re-execute a replay file in a fresh interpreter; returns the parsed result dict."""
    env = dict(os.environ)
    env.update(kernel.PINNED_ENV)
    cmd = [sys.executable, '-m', 'sim.cli', 'replay', path, '--json']
    proc = subprocess.run(cmd, cwd=kernel.VERIF_DIR, env=env, capture_output=True, text=True,
                          timeout=1800, check=False)
    for line in proc.stdout.splitlines():
        if line.startswith('REPLAY-RESULT '):
            return json.loads(line[len('REPLAY-RESULT '):])
    return {'reproduced': False, 'error': (proc.stdout + proc.stderr)[-2000:]}


def run_check(modname: str, tier: str) -> int:
    t0 = time.time()
    master = kernel.master_seed()
    mod = importlib.import_module(modname)
    prop = mod.PROP
    nproc = kernel.procs()
    print(f'VERIF_SEED={master} property={prop} tier={tier} procs={nproc} repo={kernel.repo_dir()}',
          flush=True)
    work = os.path.join(kernel.WORK_DIR, prop)
    os.makedirs(work, exist_ok=True)
    os.makedirs(os.path.join(kernel.out_dir(), 'replays'), exist_ok=True)
    os.makedirs(os.path.join(kernel.out_dir(), 'evidence'), exist_ok=True)

    runs = mod.plan(tier, master)
    flt = os.environ.get('VERIF_PLAN_FILTER')     # validation aid only: a sub-plan (use VERIF_OUT too)
    if flt:
        runs = [r for r in runs if flt in json.dumps(r, default=str)]
    if hasattr(mod, 'warmup'):
        mod.warmup()
    budget = os.environ.get('VERIF_BUDGET_S')
    deadline = (t0 + float(budget)) if budget else None
    results = [None] * len(runs)
    harness_errors = []
    _init(modname, deadline)
    # Every run executes in its own fresh fork of this (warmed-up, never simulating) process, so
    # a run's result is a function of its descriptor and the code only - not of what the worker
    # executed before - and candidate cases can be re-evaluated from the same pristine state.
    pool = mp.get_context('fork').Pool(processes=nproc, maxtasksperchild=1)
    try:
        pend = {i: pool.apply_async(_work, (run,)) for i, run in enumerate(runs)}
        tmo = int(os.environ.get('VERIF_RUN_TIMEOUT', '1800')) + 120
        last_progress = time.time()
        done = 0
        while pend:
            ready = [i for i, fut in pend.items() if fut.ready()]
            if not ready:
                if time.time() - last_progress > tmo:
                    harness_errors.append(f'no run finished for {tmo}s; {len(pend)} runs pending '
                                          '(worker died, deadlocked or timed out)')
                    break
                time.sleep(0.05)
                continue
            last_progress = time.time()
            for i in ready:
                try:
                    results[i] = pend.pop(i).get()
                except BaseException as exc:
                    results[i] = {'harness_error': f'{type(exc).__name__}: {exc}'}
                done += 1
                if done % max(1, len(runs) // 10) == 0:
                    print(f'  .. {done}/{len(runs)} runs  ({time.time() - t0:.0f}s)', flush=True)
    except BaseException:
        pool.terminate()
        raise

    def evaluate(case):
        """Re-execute one case in a fresh fork of the pristine parent state."""
        return pool.apply_async(_eval_case, (modname, case)).get(timeout=tmo)

    # ---- aggregate in run-index order (independent of the number of worker processes)
    agg = {'n_runs': 0, 'skipped': 0, 'n_eval': 0, 'steps': 0, 'counters': {}, 'sigs': set(),
           'samples': [], 'sets': {}, 'violations': []}
    for i, res in enumerate(results):
        if res is None:
            harness_errors.append(f'run {i} produced no result')
            continue
        if res.get('skipped'):
            agg['skipped'] += 1
            continue
        if 'harness_error' in res:
            harness_errors.append(f'run {i}: {res["harness_error"]}')
            continue
        agg['n_runs'] += 1
        agg['n_eval'] += res.get('n_eval', 0)
        agg['steps'] += res.get('steps', 0)
        for k, v in res.get('counters', {}).items():
            agg['counters'][k] = agg['counters'].get(k, 0) + v
        agg['sigs'].update(res.get('sigs', []))
        for k, v in res.get('sets', {}).items():
            agg['sets'].setdefault(k, set()).update(v)
        if len(agg['samples']) < 6:
            agg['samples'] += res.get('samples', [])[:2]
        for vio in res.get('violations', []):
            vio['run_index'] = i
            agg['violations'].append(vio)

    # ---- violations: write replay, confirm in a fresh interpreter, match known findings
    known = load_known(prop)
    seen, confirmed, known_hits = {}, [], {}
    for vio in agg['violations']:
        key = sig_key(vio['signature'])
        if key in seen:
            seen[key]['count'] += 1
            continue
        seen[key] = vio
        vio['count'] = 1
    # phase A: shrink the first case of each signature, every candidate in a fresh fork
    shrunk = []
    for key, vio in seen.items():
        if len(shrunk) >= int(os.environ.get('VERIF_MAX_REPLAYS', '6')):
            break
        try:
            small = mod.shrink(vio, evaluate) if hasattr(mod, 'shrink') else evaluate(vio['case'])
        except BaseException as exc:
            small = None
            harness_errors.append(f'shrinking {key}: {type(exc).__name__}: {exc}')
        if small is None:
            harness_errors.append(f'violation {key} of run {vio["run_index"]} does not reproduce '
                                  f'from a pristine process state: {vio.get("observed", "")[:300]}')
            continue
        small['count'] = vio['count']
        shrunk.append((key, small))
    # the pool must be gone before any subprocess is spawned from this (multi-threaded) process:
    # a worker forked while subprocess holds its exec-error pipe would keep that pipe open
    pool.terminate()
    pool.join()
    # phase B: write the replay files and confirm each in a fresh interpreter
    for key, vio in shrunk:
        name = f'{prop}-{kernel.sha(key)}.json'
        ent = match_known(vio, known)
        sub = 'known' if ent else ''
        pth = os.path.join(kernel.out_dir(), 'replays', sub, name) if sub else \
            os.path.join(kernel.out_dir(), 'replays', name)
        os.makedirs(os.path.dirname(pth), exist_ok=True)
        with open(pth, 'w', encoding='utf-8') as fil:
            json.dump({'property': prop, 'module': modname, 'master_seed': master,
                       'clause': vio['clause'], 'signature': vio['signature'],
                       'observed': vio.get('observed', ''), 'case': vio['case']}, fil, indent=1)
        rep = fresh_replay(pth)
        if not rep.get('reproduced') or \
                sig_key(rep.get('signature', {})) != sig_key(vio['signature']):
            harness_errors.append(f'replay {pth} did not reproduce in a fresh interpreter: {rep}')
            continue
        if ent:
            known_hits[ent['id']] = (ent, pth, vio)
        else:
            confirmed.append((vio, pth))

    for ent, pth, vio in known_hits.values():
        print(f'KNOWN-FINDING: property={prop} {ent["what"]} (replay={pth})', flush=True)
    for vio, pth in confirmed:
        print(f'  violation clause={vio["clause"]} signature={sig_key(vio["signature"])} '
              f'seen={vio["count"]}x :: {vio.get("observed", "")[:300]}', flush=True)
        print(f'VIOLATION property={prop} replay={pth}', flush=True)

    # ---- evidence
    wall = time.time() - t0
    desc = mod.describe(tier, agg)
    cnt = agg['counters']
    coverage = {
        'evaluations': agg['n_eval'],
        'distinct_nontrivial': len(agg['sigs']),
        'rule': desc['rule'],
        'samples': agg['samples'][:6],
        'exhaustive': False,
        'simulated_runs': agg['n_runs'],
        'runs_skipped_budget': agg['skipped'],
        'runs_per_hour': int(agg['n_eval'] / wall * 3600) if wall > 0 else 0,
        'logical_steps': agg['steps'],
        'faults_fired': {k[6:]: v for k, v in sorted(cnt.items()) if k.startswith('fault.')},
        'probes': {k[6:]: v for k, v in sorted(cnt.items()) if k.startswith('probe.')},
        'probes_never_hit': sorted(k[6:] for k, v in cnt.items()
                                   if k.startswith('probe.') and v == 0),
        'other_counters': {k: v for k, v in sorted(cnt.items())
                           if not k.startswith(('fault.', 'probe.'))},
        'distinct': {k: len(v) for k, v in sorted(agg['sets'].items())},
        'procs': nproc,
        'repo': kernel.repo_dir(),
    }
    coverage.update(desc.get('extra', {}))
    evidence = {
        'property_id': prop, 'tier': tier, 'seed': master, 'level': 'exploration',
        'coverage': coverage, 'assumptions': desc.get('assumptions', []),
        'wall_s': round(wall, 1), 'violations': len(confirmed),
        'known_findings_seen': sorted(known_hits), 'harness_errors': len(harness_errors),
    }
    evp = os.path.join(kernel.out_dir(), 'evidence', f'{prop}.json')
    with open(evp, 'w', encoding='utf-8') as fil:
        json.dump(evidence, fil, indent=1, sort_keys=True, default=str)
    print(f'{prop} {tier}: runs={agg["n_runs"]} evaluations={agg["n_eval"]} '
          f'distinct_nontrivial={len(agg["sigs"])} violations={len(confirmed)} '
          f'known={len(known_hits)} wall={wall:.0f}s evidence={evp}', flush=True)

    if harness_errors:
        for msg in harness_errors[:5]:
            print('HARNESS-ERROR: ' + msg[:3000], flush=True)
        return EXIT_HARNESS if not confirmed else EXIT_VIOLATION
    if confirmed:
        return EXIT_VIOLATION
    if agg['n_eval'] == 0:
        print('HARNESS-ERROR: nothing was evaluated', flush=True)
        return EXIT_HARNESS
    return EXIT_OK
