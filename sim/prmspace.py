"""The 25 parameter leaves of the packaged YAML, their documented domains, seeded assignment
generator, harness-side parse of the packaged defaults and a YAML writer.

Values are YAML-native (int, float, str, list, None) so that all three routes (per-call dict,
in-place global edit, YAML file via set_prms) can carry identical values.
"""
import copy
import os

from . import kernel
from .models import get_path, leaf_paths, set_path

# leaf path -> value generator (rng -> value). Domains as documented in the packaged YAML / docs.
LEAVES = {
    ('MPL_STYLE',): lambda r: r.choice(['base', None]),
    ('MSA',): lambda r: r.choice([None, 1500, 3000, 5000, 8000, 12000]),
    ('MSA_HIT_BUFFER',): lambda r: r.choice([0, 200, 500, 1000, 1500, 3000]),
    ('MAX_HITS_OKTA0',): lambda r: r.choice([0, 1, 2, 3, 5, 8]),
    ('MAX_HOLES_OKTA8',): lambda r: r.choice([0, 1, 2, 4, 8, 15]),
    ('BASE_LVL_HEIGHT_PERC',): lambda r: r.choice([0, 1, 5, 10, 25, 50, 12.5]),
    ('BASE_LVL_LOOKBACK_PERC',): lambda r: r.choice([100, 80, 50, 33, 20]),
    ('EXCLUDE_FOR_BASE_HEIGHT_CALC',): lambda r: r.choice([[], ['C0'], ['C1'], ['C0', 'C2'],
                                                           ['C2', 'C0'], ['C3', 'C1', 'C0']]),
    ('LOWESS', 'frac'): lambda r: r.choice([0.1, 0.2, 0.35, 0.5, 0.8, 1.0]),
    ('LOWESS', 'it'): lambda r: r.choice([1, 2, 3, 5]),
    ('MIN_SEP_VALS',): lambda r: r.choice([[250, 1000], [100, 1000], [400, 1000], [10, 10],
                                           [150, 600], [600, 1200]]),
    ('MIN_SEP_LIMS',): lambda r: r.choice([[10000], [3000], [5000], [1500]]),
    ('SLICING_PRMS', 'distance_threshold'): lambda r: r.choice([0.03, 0.08, 0.15, 0.2, 0.3, 0.5]),
    ('SLICING_PRMS', 'dt_scale'): lambda r: r.choice([100000, 10000, 2000, 500]),
    ('SLICING_PRMS', 'height_scale_mode'): lambda r: 'minmax-scale',
    ('SLICING_PRMS', 'height_scale_kwargs', 'min_range'):
        lambda r: r.choice([1000, 300, 600, 2000, 4000]),
    ('GROUPING_PRMS', 'height_pad_perc'): lambda r: r.choice([10, 0, -10, 20, 30, 40]),
    ('GROUPING_PRMS', 'dt_scale'): lambda r: r.choice([180, 30, 60, 600, 2000]),
    ('GROUPING_PRMS', 'height_scale_range'):
        lambda r: r.choice([[100, 500], [20, 60], [50, 200], [300, 900], [10, 2000],
                            [500, 100], [60, 20], [900, 300]]),   # only min()/max() are used
    ('LAYERING_PRMS', 'min_okta_to_split'): lambda r: r.choice([2, 0, 1, 4, 6, 8]),
    ('LAYERING_PRMS', 'gmm_kwargs', 'scores'): lambda r: r.choice(['BIC', 'AIC']),
    ('LAYERING_PRMS', 'gmm_kwargs', 'mode'): lambda r: r.choice(['delta', 'prob']),
    ('LAYERING_PRMS', 'gmm_kwargs', 'min_prob'): lambda r: r.choice([1.0, 0.5, 0.9, 0.99, 0.0]),
    ('LAYERING_PRMS', 'gmm_kwargs', 'delta_mul_gain'):
        lambda r: r.choice([0.95, 1.0, 0.9, 0.8, 0.5]),
    ('LAYERING_PRMS', 'gmm_kwargs', 'rescale_0_to_x'):
        lambda r: r.choice([100, None, 10, 1000, 37.5, 1, 0.1, 0.01]),
}
LIST_LEAVES = [('GROUPING_PRMS', 'height_scale_range'), ('MIN_SEP_VALS',), ('MIN_SEP_LIMS',),
               ('EXCLUDE_FOR_BASE_HEIGHT_CALC',)]
PROCESSING_LEAVES = [p for p in LEAVES if p not in (('MPL_STYLE',),
                                                    ('SLICING_PRMS', 'height_scale_mode'))]

# leaves that are only live in a context: extra leaves the assignment must carry
CONTEXT = {
    ('MSA_HIT_BUFFER',): {('MSA',): [3000, 5000, 8000]},
    ('LAYERING_PRMS', 'gmm_kwargs', 'min_prob'): {('LAYERING_PRMS', 'gmm_kwargs', 'mode'):
                                                  ['prob']},
    ('LAYERING_PRMS', 'gmm_kwargs', 'delta_mul_gain'):
        {('LAYERING_PRMS', 'gmm_kwargs', 'mode'): ['delta']},
}
# scene classes on which a leaf was seen live (first liveness scans); None = any cloudy class
LIVE_CLASSES = {
    ('BASE_LVL_HEIGHT_PERC',): ['asym-split', 'asym-split', 'asym-split', 'split', 'demo-like'],
    ('BASE_LVL_LOOKBACK_PERC',): ['asym-split', 'asym-split', 'split', 'demo-like', 'merge'],
    ('MAX_HOLES_OKTA8',): ['demo-like', 'multi-hit', 'single'],
    ('GROUPING_PRMS', 'dt_scale'): ['demo-like'],
    ('GROUPING_PRMS', 'height_scale_range'): ['demo-like'],
    ('GROUPING_PRMS', 'height_pad_perc'): ['demo-like'],
    ('LAYERING_PRMS', 'gmm_kwargs', 'mode'): ['demo-like', 'rng-sensitive', 'split'],
    ('LAYERING_PRMS', 'gmm_kwargs', 'rescale_0_to_x'): ['demo-like', 'split', 'rng-sensitive'],
    ('LAYERING_PRMS', 'gmm_kwargs', 'scores'): ['borderline'],
    ('LAYERING_PRMS', 'gmm_kwargs', 'min_prob'): ['rng-sensitive', 'split', 'demo-like'],
    ('LAYERING_PRMS', 'gmm_kwargs', 'delta_mul_gain'): ['rng-sensitive', 'split', 'demo-like'],
    ('LAYERING_PRMS', 'min_okta_to_split'): ['split', 'rng-sensitive', 'merge+split'],
    ('MSA',): ['msa-crop', 'two-far', 'multi-hit'],
    ('MSA_HIT_BUFFER',): ['msa-crop', 'multi-hit'],
    ('MIN_SEP_VALS',): ['merge', 'split', 'rng-sensitive'],
    ('MIN_SEP_LIMS',): ['merge+split', 'split', 'merge'],
    ('EXCLUDE_FOR_BASE_HEIGHT_CALC',): ['demo-like', 'two-far', 'split'],
}
CLOUDY = ['split', 'merge', 'merge+split', 'demo-like', 'two-far', 'multi-hit', 'rng-sensitive',
          'single', 'borderline', 'asym-split', 'two-valued', 'high-close']


def path_str(path):
    return '.'.join(path)


def default_prms_file():
    return os.path.join(kernel.repo_src(), 'ampycloud', 'prms', 'ampycloud_default_prms.yml')


def packaged_defaults():
    """Harness-side parse of the packaged YAML (ruamel safe loader, not ampycloud's function),
    cross-checked against PyYAML; a disagreement is a harness error, not a violation."""
    from ruamel.yaml import YAML
    import yaml as pyyaml
    with open(default_prms_file(), encoding='utf-8') as fil:
        txt = fil.read()
    a = YAML(typ='safe').load(txt)
    b = pyyaml.safe_load(txt)
    from .digest import typed_diff
    diff = typed_diff(a, b)
    if diff:
        raise kernel.HarnessError(f'ruamel and PyYAML disagree on the packaged defaults: {diff}')
    return a


def discovered_leaves(defaults):
    """Leaves of the packaged YAML this table does not know (a parameter added by a change to
    the repository): they get a domain derived from the type of their default, so that a new
    parameter is exercised through every route from the day it appears."""
    return [q for q in leaf_paths(defaults) if q not in LEAVES]


def _typed_domain(default):
    if isinstance(default, bool):
        return [not default]
    if isinstance(default, int):
        return [0, 1, default + 1, 2 * default + 3]
    if isinstance(default, float):
        return [0.0, default / 2, default * 2, 1.0]
    return []


def gen_value(rng, path, avoid=()):
    """A valid value for the leaf, different (typed) from every value in `avoid`."""
    from .digest import typed_repr
    avoid_r = {typed_repr(v) for v in avoid}
    if path not in LEAVES:          # discovered leaf: domain from the type of its default
        dom = [v for v in _typed_domain(get_path(packaged_defaults(), path))
               if typed_repr(v) not in avoid_r]
        return rng.choice(dom) if dom else copy.deepcopy(get_path(packaged_defaults(), path))
    # falsy but valid values (0, 0.0, None, []) are where "x or default" fallbacks bite
    if rng.random() < 0.3:
        falsy = [v for v in (LEAVES[path](rng) for _ in range(12))
                 if not v and typed_repr(v) not in avoid_r]
        if falsy:
            return copy.deepcopy(falsy[0])
    for _ in range(40):
        val = LEAVES[path](rng)
        if typed_repr(val) not in avoid_r:
            return copy.deepcopy(val)
    return None if 'NoneType:None' not in avoid_r and path == ('MSA',) else copy.deepcopy(val)


def assign_from_leaves(leaf_values: dict) -> dict:
    """{path: value} -> nested partial dict."""
    out = {}
    for path, val in leaf_values.items():
        cur = out
        for k in path[:-1]:
            cur = cur.setdefault(k, {})
        cur[path[-1]] = copy.deepcopy(val)
    return out


def gen_leaf_values(rng, defaults, n_leaves=None, must=(), exclude=(), allow_default=0.0):
    """Seeded subset of leaves with valid values (context dependencies honoured). MIN_SEP lists
    are kept consistent: VALS always one longer than LIMS."""
    pool = [p for p in LEAVES if p not in exclude and p != ('SLICING_PRMS', 'height_scale_mode')
            and p != ('MPL_STYLE',)]
    pool += [p for p in discovered_leaves(defaults) if p not in exclude
             and _typed_domain(get_path(defaults, p))]
    k = n_leaves if n_leaves is not None else rng.choice([1, 1, 2, 3, 5, 8])
    chosen = list(must) + [p for p in rng.sample(pool, min(k, len(pool))) if p not in must]
    out = {}
    for path in chosen:
        if allow_default and path not in must and rng.random() < allow_default:
            # the packaged default, named explicitly: matters when the global holds another value
            out[path] = copy.deepcopy(get_path(defaults, path))
            continue
        out[path] = gen_value(rng, path, avoid=[get_path(defaults, path)])
        for cpath, cvals in CONTEXT.get(path, {}).items():
            if cpath not in out:
                out[cpath] = rng.choice(cvals)
    if ('MIN_SEP_LIMS',) in out or ('MIN_SEP_VALS',) in out:
        lims = out.get(('MIN_SEP_LIMS',), get_path(defaults, ('MIN_SEP_LIMS',)))
        vals = out.get(('MIN_SEP_VALS',), get_path(defaults, ('MIN_SEP_VALS',)))
        if len(vals) != len(lims) + 1:
            out[('MIN_SEP_LIMS',)] = [10000] if len(vals) == 2 else lims
            if len(vals) != len(out[('MIN_SEP_LIMS',)]) + 1:
                out[('MIN_SEP_VALS',)] = [250, 1000]
    return out


def poison_values(rng, leaf_values, defaults):
    """For exactly the leaves of an assignment: valid values different from the assignment's and
    from the defaults."""
    out = {}
    for path, val in leaf_values.items():
        out[path] = gen_value(rng, path, avoid=[val, get_path(defaults, path)])
    lims, vals = out.get(('MIN_SEP_LIMS',)), out.get(('MIN_SEP_VALS',))
    if lims is not None and vals is None and len(lims) != 1:
        out[('MIN_SEP_LIMS',)] = [7000]
    if vals is not None and len(vals) != 2:
        out[('MIN_SEP_VALS',)] = [333, 1111]
    return out


UNKNOWN_KEYS = ['MSA_', 'msa', 'LOWES', 'GMM', 'Min_Sep', 'foo', 'frac2', 'dt-scale', 'x']


_SOURCE_KEYS = [None]


def source_key_candidates(defaults):
    """Unknown-key candidates that a change to the repository may start to treat specially:
    case variants of the known keys, and string literals of the source that look like keys."""
    if _SOURCE_KEYS[0] is None:
        import glob
        import re
        known = set()

        def walk(dct):
            for k, v in dct.items():
                known.add(k)
                if isinstance(v, dict):
                    walk(v)
        walk(defaults)
        cands = {k.lower() for k in known if k.lower() not in known} | \
            {k.upper() for k in known if k.upper() not in known}
        pat = re.compile(r"""['"]([A-Za-z_][A-Za-z0-9_]{3,28})['"]""")
        lits = set()
        for fil in glob.glob(os.path.join(kernel.repo_src(), 'ampycloud', '**', '*.py'),
                             recursive=True):
            with open(fil, encoding='utf-8') as fh:
                lits.update(pat.findall(fh.read()))
        lits = {w for w in lits if w not in known and ('_' in w or w.isupper())}
        _SOURCE_KEYS[0] = sorted(cands) + sorted(lits)[:60]
    return _SOURCE_KEYS[0]


def add_unknown_keys(rng, assign, defaults, n=None):
    """Insert unknown keys at depth 1-3; returns the list of their paths."""
    paths = []
    dict_paths = [()] + sorted({p[:i] for p in leaf_paths(defaults) for i in range(1, len(p))})
    for _ in range(n or rng.choice([1, 1, 2, 3])):
        parent = rng.choice(dict_paths)
        key = rng.choice(UNKNOWN_KEYS) if rng.random() < 0.4 else \
            rng.choice(source_key_candidates(defaults))
        cur = assign
        for k in parent:
            cur = cur.setdefault(k, {})
        if key in cur:
            continue
        cur[key] = rng.choice([1, 'a', [1, 2], [300, 1200], None, {'deep': 1}])
        paths.append(parent + (key,))
    return paths


def write_yaml(assign, path):
    import yaml as pyyaml
    with open(path, 'w', encoding='utf-8') as fil:
        pyyaml.safe_dump(assign, fil, default_flow_style=False, sort_keys=False)


def apply_in_place(target: dict, assign: dict):
    """What a user does when editing the global dictionary directly: nested item assignment."""
    for path in leaf_paths(assign):
        set_path(target, path, copy.deepcopy(get_path(assign, path)))


def all_leaves_poison(rng, defaults, avoid_leaves=None):
    """A valid non-default value for *every* processing leaf (different from avoid_leaves[path]
    where given). MIN_SEP lists keep their packaged lengths."""
    avoid_leaves = avoid_leaves or {}
    out = {}
    for path in PROCESSING_LEAVES:
        dflt = get_path(defaults, path)
        avoid = [dflt] + ([avoid_leaves[path]] if path in avoid_leaves else [])
        val = gen_value(rng, path, avoid=avoid)
        if path == ('MIN_SEP_LIMS',) and len(val) != 1:
            val = [7000]
        if path == ('MIN_SEP_VALS',) and len(val) != 2:
            val = [333, 1111]
        out[path] = val
    return out
