"""Entry point:  python -m sim.cli <Cxx> <quick|thorough>  |  replay <file> [--json]  |  selftest ..."""
import importlib
import json
import os
import sys

from . import kernel

CHECKS = {'C09': 'checks.c09', 'C11': 'checks.c11', 'C12': 'checks.c12', 'C13': 'checks.c13',
          'C14': 'checks.c14', 'C20': 'checks.c20'}


def main(argv):
    if len(argv) < 2:
        print(__doc__)
        return 2
    kernel.use_repo()
    kernel.pin_process()
    import faulthandler
    import signal
    faulthandler.register(signal.SIGUSR1, all_threads=True)   # kill -USR1 <pid> dumps all stacks
    if argv[0] == 'replay':
        with open(argv[1], encoding='utf-8') as fil:
            rec = json.load(fil)
        mod = importlib.import_module(rec['module'])
        vio = mod.replay(rec['case'])
        res = {'reproduced': vio is not None}
        if vio is not None:
            res.update(clause=vio['clause'], signature=vio['signature'],
                       observed=vio.get('observed', ''))
        if '--json' in argv:
            print('REPLAY-RESULT ' + json.dumps(res))
            return 0
        if vio is None:
            print(f'replay {argv[1]}: not reproduced on this tree')
            return 0
        print(f'  clause={vio["clause"]} signature={json.dumps(vio["signature"], sort_keys=True)}')
        print(f'  observed: {vio.get("observed", "")}')
        print(f'VIOLATION property={rec["property"]} replay={os.path.abspath(argv[1])}')
        return 1
    if argv[0] == 'child':
        return importlib.import_module(argv[1]).child_main(argv[2:])
    if argv[0] == 'selftest':
        mod = importlib.import_module('selftest.' + argv[1])
        return mod.main(argv[2:])
    prop, tier = argv[0].upper(), argv[1]
    if prop not in CHECKS or tier not in ('quick', 'thorough'):
        print(__doc__)
        return 2
    os.environ['VERIF_TIER'] = tier
    from . import fanout
    return fanout.run_check(CHECKS[prop], tier)


if __name__ == '__main__':
    sys.exit(main(sys.argv[1:]))
