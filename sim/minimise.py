"""Delta debugging over lists (operations, workers, switches)."""


def ddmin(items: list, fails, max_runs: int = 80) -> list:
    """Smallest sub-list (order kept) found for which fails(sub) is still True.

    fails() must be deterministic. At most max_runs calls are made.
    """
    budget = [max_runs]

    def test(sub):
        if budget[0] <= 0:
            return False
        budget[0] -= 1
        return bool(fails(sub))

    cur = list(items)
    n = 2
    while len(cur) >= 2 and budget[0] > 0:
        chunk = max(1, len(cur) // n)
        reduced = False
        for start in range(0, len(cur), chunk):
            cand = cur[:start] + cur[start + chunk:]
            if cand and test(cand):
                cur = cand
                n = max(n - 1, 2)
                reduced = True
                break
        if not reduced:
            if chunk == 1:
                break
            n = min(len(cur), n * 2)
    # final single-element pass
    i = 0
    while i < len(cur) and len(cur) > 1 and budget[0] > 0:
        cand = cur[:i] + cur[i + 1:]
        if test(cand):
            cur = cand
        else:
            i += 1
    return cur


def shrink_history(vio, evaluate, same=None, ops_key='ops', prelude_key='prelude', max_runs=60):
    """Generic shrinker for history cases. `evaluate(case)` re-executes a case from a pristine
    process state and returns a violation dict or None. Steps: confirm; drop the prelude
    (earlier histories of the same process) entirely or history by history; delta-debug the
    operation list. A candidate is kept only if the same violation class persists.
    Returns the minimised violation dict, or None when the original case does not reproduce."""
    if same is None:
        want = (vio['clause'], vio['signature'].get('op'))

        def same(v):
            return v is not None and (v['clause'], v['signature'].get('op')) == want
    budget = [max_runs]

    def test(case):
        if budget[0] <= 0:
            return None
        budget[0] -= 1
        v = evaluate(case)
        return v if same(v) else None

    case = dict(vio['case'])
    best = test(case)
    if best is None:
        return None
    if case.get(prelude_key):
        cand = dict(case, **{prelude_key: []})
        v = test(cand)
        if v is not None:
            case, best = cand, v
        else:
            def pre_fails(sub):
                return test(dict(case, **{prelude_key: sub})) is not None
            small = ddmin(case[prelude_key], pre_fails, max_runs=max(0, budget[0] // 2))
            cand = dict(case, **{prelude_key: small})
            v = test(cand)
            if v is not None:
                case, best = cand, v
    ops = case[ops_key]

    def ops_fail(sub):
        return test(dict(case, **{ops_key: sub})) is not None
    small = ddmin(ops, ops_fail, max_runs=max(0, budget[0] - 1))
    budget[0] = max(budget[0], 1)
    cand = dict(case, **{ops_key: small})
    v = test(cand)
    if v is not None:
        case, best = cand, v
    return best
