"""Delta debugging over lists (operations, workers, switches)."""


def ddmin(items: list, fails, max_runs: int = 80) -> list:
    """Smallest sub-list (order kept) found for which fails(sub) is still True.

    fails() must be deterministic. At most max_runs calls are made.
    """
    budget = [max_runs]

    def test(sub):
        if budget[0] <= 0:
            return False
        budget[0] -= 1
        return bool(fails(sub))

    cur = list(items)
    n = 2
    while len(cur) >= 2 and budget[0] > 0:
        chunk = max(1, len(cur) // n)
        reduced = False
        for start in range(0, len(cur), chunk):
            cand = cur[:start] + cur[start + chunk:]
            if cand and test(cand):
                cur = cand
                n = max(n - 1, 2)
                reduced = True
                break
        if not reduced:
            if chunk == 1:
                break
            n = min(len(cur), n * 2)
    # final single-element pass
    i = 0
    while i < len(cur) and len(cur) > 1 and budget[0] > 0:
        cand = cur[:i] + cur[i + 1:]
        if test(cand):
            cur = cand
        else:
            i += 1
    return cur
