"""Seeded scene generators (own code, independent of ampycloud.utils.mocker).

A scene is a JSON-able dict {'cls': str, 'rows': [[ceilo, dt, height|None, type], ...],
'prms': {...per-call parameters that make the class live...}}. Scenes are workload, not the
object of study: every scene is classified by running it once alone (probe()).
"""
import math
import numpy as np
import pandas as pd


def to_frame(scene_or_rows) -> pd.DataFrame:
    rows = scene_or_rows['rows'] if isinstance(scene_or_rows, dict) else scene_or_rows
    df = pd.DataFrame({
        'ceilo': pd.array([r[0] for r in rows], dtype=pd.StringDtype()),
        'dt': np.array([r[1] for r in rows], dtype=float),
        'height': np.array([math.nan if r[2] is None else r[2] for r in rows], dtype=float),
        'type': np.array([r[3] for r in rows], dtype=int),
    })
    return df


def _r(x, nd=1):
    return round(float(x), nd)


def decks_rows(rng, n_ceilos, n_times, decks, lookback=900., vv_frac=0.0, coincident=False,
               names=None, max_types=3):
    """decks: list of (height, std, coverage). Returns rows sorted by (dt, height)."""
    rows = []
    gap = lookback / n_times
    for c in range(n_ceilos):
        name = names[c] if names else f'C{c}'
        off = 0.0 if coincident else _r(rng.uniform(0, gap * 0.9), 2)
        for k in range(n_times):
            dt = _r(-lookback + k * gap + off, 2)
            hits = []
            for (h, std, cov) in decks:
                if rng.random() < cov:
                    hh = _r(rng.gauss(h, std), 1)
                    if hh > 0:
                        hits.append(hh)
            hits = sorted(hits)[:max_types]
            if not hits:
                rows.append([name, dt, None, 0])
            elif vv_frac > 0 and rng.random() < vv_frac:
                rows.append([name, dt, hits[0], -1])
            else:
                for a, hh in enumerate(hits):
                    rows.append([name, dt, hh, a + 1])
    rows.sort(key=lambda r: (r[1], r[0], r[3]))
    return rows


# --------------------------------------------------------------------------------------------
# class recipes
# --------------------------------------------------------------------------------------------
def _single(rng):
    h = rng.choice([400, 900, 1800, 3200, 7400])
    return {'rows': decks_rows(rng, rng.choice([1, 2]), rng.randint(25, 50),
                               [(h, rng.choice([5, 30, 60]), rng.choice([1.0, 0.9, 0.6]))]),
            'prms': {}}


def _two_far(rng):
    h = rng.choice([500, 1500, 2500])
    return {'rows': decks_rows(rng, rng.choice([1, 2, 3]), rng.randint(20, 40),
                               [(h, 20, rng.choice([0.5, 0.8])), (h + rng.choice([1500, 3000]), 40,
                                                                   rng.choice([0.6, 1.0]))]),
            'prms': {}}


def _merge(rng):
    """Two flat decks just under MIN_SEP_VALS[0] apart: two slices, two groups, merged."""
    h = rng.choice([1200, 2400, 3600])
    sep_val = rng.choice([250, 300, 400])
    gap = rng.randint(int(sep_val * 0.84), sep_val - 8)
    decks = [(h, 2, rng.choice([0.6, 0.8, 1.0])), (h + gap, 2, rng.choice([0.6, 0.8, 1.0]))]
    prms = {'MIN_SEP_VALS': [sep_val, 1000]}
    if rng.random() < 0.4:
        decks.append((h + gap + rng.choice([2500, 4000]), 30, 0.7))
        prms['SLICING_PRMS'] = {'distance_threshold': 0.04}
    return {'rows': decks_rows(rng, rng.choice([1, 2]), rng.randint(25, 45), decks),
            'prms': prms}


def _multi_merge(rng):
    """Four or five flat decks, each just under MIN_SEP_VALS[0] above the previous one: the
    close-group merging has to iterate (merging two groups moves the base of the result)."""
    h = rng.choice([1000, 2000, 3000])
    sep_val = rng.choice([300, 400])
    decks = []
    for _ in range(rng.randint(4, 5)):
        decks.append((h, 2, rng.choice([0.5, 0.7, 0.9])))
        h += rng.randint(int(sep_val * 0.84), sep_val - 8)
    return {'rows': decks_rows(rng, rng.choice([1, 2]), rng.randint(25, 40), decks, max_types=5),
            'prms': {'MIN_SEP_VALS': [sep_val, 1000], 'SLICING_PRMS': {'distance_threshold': 0.1}}}


def _split(rng):
    """Two sub-decks that slicing/grouping keep together and the mixture model separates."""
    h = rng.choice([1500, 2200, 3000])
    gap = rng.randint(380, 650)
    std = rng.choice([40, 60])
    decks = [(h, std, rng.choice([0.7, 0.9])), (h + gap, std, rng.choice([0.7, 0.9])),
             (h + 6000, 50, rng.choice([0.3, 0.6]))]
    return {'rows': decks_rows(rng, rng.choice([2, 3]), rng.randint(25, 40), decks),
            'prms': {}}


def _merge_split(rng):
    """Low pair of sub-decks split by the mixture model + high pair of flat decks merged."""
    h = rng.choice([1300, 1600])
    gap = rng.randint(420, 520)
    g = rng.randint(670, 770)
    decks = [(h, 45, 0.8), (h + gap, 45, 0.8),
             (5000, 2, rng.choice([0.7, 0.9])), (5000 + g, 2, rng.choice([0.7, 0.9]))]
    return {'rows': decks_rows(rng, rng.choice([2, 3]), rng.randint(25, 35), decks, max_types=4),
            'prms': {'MIN_SEP_VALS': [250, 800], 'MIN_SEP_LIMS': [4000],
                     'SLICING_PRMS': {'distance_threshold': 0.15}}}


def _rng_sensitive(rng):
    """Four to six sub-decks 40-120 ft apart: the mixture fit depends on its initialisation."""
    n = rng.randint(4, 6)
    h = rng.choice([1000, 2000, 3000])
    decks = []
    for _ in range(n):
        decks.append((h, rng.choice([5, 10, 15]), rng.choice([0.5, 0.7, 0.9])))
        h += rng.randint(40, 120)
    return {'rows': decks_rows(rng, rng.choice([1, 2, 3]), rng.randint(22, 32), decks),
            'prms': {'MIN_SEP_VALS': [10, 10],
                     'LAYERING_PRMS': {'gmm_kwargs': {'delta_mul_gain': 1.0}}}}


def _borderline(rng):
    """Two overlapping sub-decks 2.3-3.2 sigma apart: the component count is borderline, so the
    choice of information criterion (AIC / BIC) and the selection mode matter."""
    std = rng.choice([30, 60])
    ratio = rng.uniform(2.3, 3.2)
    h = rng.choice([1500, 2000, 3000])
    decks = [(h, std, 0.9), (h + ratio * std, std, 0.9)]
    return {'rows': decks_rows(rng, 2, rng.randint(18, 45), decks),
            'prms': {'MIN_SEP_VALS': [10, 10],
                     'LAYERING_PRMS': {'gmm_kwargs': {'delta_mul_gain': 1.0}}}}


def _asym_split(rng):
    """Thin deck + fluffy deck 280-420 ft above it, kept in one group: whether the mixture
    components are re-merged depends on where the base level sits inside the fluffy deck, i.e. on
    BASE_LVL_HEIGHT_PERC / BASE_LVL_LOOKBACK_PERC at decision time."""
    h = rng.choice([900, 1500, 2400])
    gap = rng.randint(280, 480)
    decks = [(h, rng.choice([8, 15]), 0.9), (h + gap, rng.choice([70, 90, 110]), 0.9),
             (h + 7000, 40, 0.4)]
    return {'rows': decks_rows(rng, 2, rng.randint(28, 42), decks), 'prms': {}}


def _two_valued(rng):
    """Coarse-resolution ceilometers: a thick low deck of three sub-layers (the mixture model
    picks three components) under a flat deck reported at exactly two distinct heights."""
    h = rng.choice([800, 1200])
    res = rng.choice([50, 100])
    rows = decks_rows(rng, 2, rng.randint(30, 40),
                      [(h, 25, 0.85), (h + 300, 25, 0.85), (h + 600, 25, 0.85), (6000, 0, 0.95)],
                      max_types=4)
    k = 0
    for r in rows:
        if r[2] is not None and r[2] > 5000:
            r[2] = 6000.0 + (res if k % 2 else 0)
            k += 1
    return {'rows': rows, 'prms': {}}


def _high_close(rng):
    """Three thin decks inside one 1000-ft reporting step above 10 000 ft: the message carries
    the same code more than once (FEWxxx BKNxxx BKNxxx)."""
    h = rng.choice([12100, 14050, 11080])
    decks = [(h, 8, rng.choice([0.15, 0.2])), (h + 300, 8, rng.choice([0.6, 0.7])),
             (h + 700, 8, rng.choice([0.6, 0.7]))]
    return {'rows': decks_rows(rng, 1, rng.randint(40, 60), decks),
            'prms': {'MIN_SEP_VALS': [250, 250]}}


QUANTISABLE = ('single', 'two-far', 'split', 'demo-like', 'multi-hit', 'msa-crop', 'many-sets',
               'asym-split', 'vv', 'sparse')


def quantise(scene, res):
    """Heights as a coarse-resolution ceilometer reports them (multiples of res ft)."""
    for r in scene['rows']:
        if r[2] is not None:
            r[2] = float(max(res, round(r[2] / res) * res))
    # coincident hits of one ceilometer may now be identical: keep one
    seen, rows = set(), []
    for r in scene['rows']:
        key = (r[0], r[1], r[2])
        if r[2] is not None and key in seen:
            continue
        seen.add(key)
        rows.append(r)
    scene['rows'] = rows
    return scene


def _large(rng):
    """More than a thousand hits (code paths that only large chunks take)."""
    h = rng.choice([1200, 2500])
    decks = [(h, 40, 0.95), (h + rng.choice([2500, 4000]), 60, rng.choice([0.5, 0.9]))]
    return {'rows': decks_rows(rng, 3, rng.randint(400, 460), decks), 'prms': {}}


def _no_hit(rng):
    return {'rows': decks_rows(rng, rng.choice([1, 2, 3]), rng.randint(5, 30), []), 'prms': {}}


def _single_hit(rng):
    rows = decks_rows(rng, rng.choice([1, 2]), rng.randint(5, 25), [])
    k = rng.randrange(len(rows))
    rows[k][2] = _r(rng.uniform(200, 9000), 1)
    rows[k][3] = rng.choice([1, -1])
    return {'rows': rows, 'prms': {}}


def _sparse(rng):
    """A few hits only: zero-okta sets."""
    rows = decks_rows(rng, rng.choice([1, 2]), rng.randint(20, 40),
                      [(rng.choice([800, 2500]), 20, 0.05), (rng.choice([4000, 6000]), 30, 0.06)])
    return {'rows': rows, 'prms': {}}


def _vv(rng):
    h = rng.choice([150, 300, 600])
    return {'rows': decks_rows(rng, rng.choice([1, 2]), rng.randint(20, 40),
                               [(h, 30, 0.95)], vv_frac=rng.choice([0.3, 1.0])),
            'prms': {}}


def _msa_crop(rng):
    msa = rng.choice([3000, 5000, 8000])
    buf = rng.choice([500, 1500])
    decks = [(msa + buf + rng.choice([300, 2000]), 50, rng.choice([0.1, 0.5, 0.9]))]
    if rng.random() < 0.7:
        decks.insert(0, (rng.choice([800, 2000]), 30, rng.choice([0.3, 0.8])))
    if rng.random() < 0.4:
        decks.append((msa + rng.choice([100, buf - 100]), 20, 0.6))
    return {'rows': decks_rows(rng, rng.choice([1, 2]), rng.randint(20, 40), decks),
            'prms': {'MSA': msa, 'MSA_HIT_BUFFER': buf}}


def _multi_hit(rng):
    h = rng.choice([700, 1500])
    decks = [(h, 20, 0.9), (h + 1500, 30, 0.9), (h + 4000, 40, 0.9), (h + 8000, 40, 0.5)]
    return {'rows': decks_rows(rng, rng.choice([1, 2]), rng.randint(20, 35), decks,
                               coincident=rng.random() < 0.5),
            'prms': {}}


def _many_sets(rng):
    """More than 8 layers / more than 10 slices / more than 10 ceilometers."""
    n_decks = rng.randint(9, 12)
    n_ceilos = rng.choice([3, 11, 12])
    decks = [(600 + 1400 * i, 15, 0.33) for i in range(n_decks)]
    prms = {}
    if rng.random() < 0.6:
        prms = {'SLICING_PRMS': {'distance_threshold': 0.03}}
    return {'rows': decks_rows(rng, n_ceilos, rng.randint(12, 20) if n_ceilos > 3 else 40, decks),
            'prms': prms}


def _demo_like(rng):
    """Four ceilometers, overlapping fluffy decks: non-isolated slices."""
    h = rng.choice([900, 1400])
    decks = [(h, 100, rng.choice([0.1, 0.3])), (h + rng.choice([700, 1000]), 100, 0.5),
             (h + rng.choice([1500, 1900]), 150, rng.choice([0.6, 0.9])),
             (h + 3600, 250, rng.choice([0.8, 1.0]))]
    prms = {}
    if rng.random() < 0.7:
        prms = {'GROUPING_PRMS': {'height_pad_perc': rng.choice([25, 35, 45])}}
    return {'rows': decks_rows(rng, 4, rng.randint(20, 35), decks), 'prms': prms}


RECIPES = {
    'single': _single, 'two-far': _two_far, 'merge': _merge, 'multi-merge': _multi_merge,
    'split': _split,
    'merge+split': _merge_split, 'rng-sensitive': _rng_sensitive, 'borderline': _borderline,
    'asym-split': _asym_split, 'two-valued': _two_valued, 'high-close': _high_close,
    'large': _large,
    'no-hit': _no_hit,
    'single-hit': _single_hit, 'sparse': _sparse, 'vv': _vv, 'msa-crop': _msa_crop,
    'multi-hit': _multi_hit, 'many-sets': _many_sets, 'demo-like': _demo_like,
}


def twin_scene(rng, scene: dict) -> dict:
    """Distinct data of the *same shape*: same ceilometers, time stamps, hit types and row
    labels as `scene`, other heights (shifted and stretched). State keyed by the shape of the
    data (row labels, counts, positions) instead of the data then collides."""
    shift = rng.choice([350, 900, 2100])
    stretch = rng.choice([1.0, 1.3, 0.8])
    rows = [[r[0], r[1], None if r[2] is None else _r(r[2] * stretch + shift, 1), r[3]]
            for r in scene['rows']]
    return {'cls': scene['cls'] + '~twin', 'rows': rows, 'prms': dict(scene.get('prms') or {})}


def gen_scene(rng, cls: str) -> dict:
    out = RECIPES[cls](rng)
    out['cls'] = cls
    if cls in QUANTISABLE and rng.random() < 0.25:
        quantise(out, rng.choice([50, 100]))
        out['quantised'] = True
    # shape of the caller's table: row order, ceilometer naming, sign of the time deltas
    if rng.random() < 0.2:
        how = rng.choice(['shuffle', 'by-ceilo', 'reverse'])
        if how == 'shuffle':
            rng.shuffle(out['rows'])
        elif how == 'by-ceilo':
            out['rows'].sort(key=lambda r: (r[0], r[1], r[3]))
        else:
            out['rows'].reverse()
        out['row_order'] = how
    if rng.random() < 0.15:
        names = sorted({r[0] for r in out['rows']})
        scheme = rng.choice([lambda i: str(i + 1), lambda i: f'Ceilometer.{"PO" if i == 0 else i}',
                             lambda i: f'LSZH_{chr(65 + i % 26)}{i // 26 or ""}',
                             lambda i: f'ceilo {i:02d} (é)'])
        ren = {n: scheme(i) for i, n in enumerate(names)}
        for r in out['rows']:
            r[0] = ren[r[0]]
        out['renamed'] = True
    if rng.random() < 0.1:
        for r in out['rows']:
            r[1] = _r(r[1] + 300.0, 2)       # some time deltas positive
        out['dt_shifted'] = True
    return out


# --------------------------------------------------------------------------------------------
# probes: what actually happens when the scene is run alone
# --------------------------------------------------------------------------------------------
def probe(scene, prms=None) -> dict:
    """Run the scene once, alone, and report what happened (class membership by observation)."""
    import warnings
    from ampycloud.data import CeiloChunk
    from ampycloud.errors import AmpycloudError
    out = {'raised': None, 'merge': False, 'split': False, 'gmm': False}
    merged = {}
    orig = CeiloChunk._merge_close_groups

    def spy(self):
        before = len(set(self.data['group_id'].tolist()))
        orig(self)
        merged['n'] = before - len(set(self.data['group_id'].tolist()))
    use = dict(scene.get('prms') or {}) if prms is None else prms
    with warnings.catch_warnings():
        warnings.simplefilter('ignore')
        CeiloChunk._merge_close_groups = spy
        try:
            chunk = CeiloChunk(to_frame(scene), prms=use)
            chunk.find_slices()
            chunk.find_groups()
            chunk.find_layers()
            out['msg'] = chunk.metar_msg()
        except AmpycloudError:
            out['raised'] = 'AmpycloudError'
            return out
        except Exception as exc:  # scene discarded by the caller (C08's question, not ours)
            out['raised'] = type(exc).__name__
            return out
        finally:
            CeiloChunk._merge_close_groups = orig
    out['merge'] = merged.get('n', 0) > 0
    nc = chunk.groups['ncomp'].tolist()
    out['gmm'] = any(v != -1 for v in nc)
    out['split'] = any(v > 1 for v in nc)
    out['n'] = (chunk.n_slices, chunk.n_groups, chunk.n_layers)
    out['nonisolated'] = bool((chunk.slices['isolated'] == False).any()) \
        if len(chunk.slices) else False  # noqa: E712
    out['zero_okta'] = bool((chunk.layers['okta'] == 0).any()) if len(chunk.layers) else False
    out['flag'] = chunk.clouds_above_msa_buffer
    out['n_ceilos'] = len(chunk.ceilos)
    return out


def rng_sensitivity(scene, seeds=(1, 2, 3, 4, 5)) -> int:
    """Number of distinct outcomes when the harness varies gmm random_seed on a private snapshot."""
    import copy
    import warnings
    from ampycloud.data import CeiloChunk
    from .digest import chunk_digest
    seen = set()
    for s in (42,) + tuple(seeds):
        prms = copy.deepcopy(scene.get('prms') or {})
        prms.setdefault('LAYERING_PRMS', {}).setdefault('gmm_kwargs', {})
        with warnings.catch_warnings():
            warnings.simplefilter('ignore')
            chunk = CeiloChunk(to_frame(scene), prms=prms)
            chunk.prms['LAYERING_PRMS']['gmm_kwargs']['random_seed'] = s
            try:
                chunk.find_slices()
                chunk.find_groups()
                chunk.find_layers()
            except Exception:
                seen.add('exc')
                continue
            del chunk.prms['LAYERING_PRMS']['gmm_kwargs']['random_seed']
            seen.add(chunk_digest(chunk))
    return len(seen)
