"""Seams the simulator owns besides thread scheduling: wall clock, global RNG, file system."""
import contextlib
import datetime as _dt
import os
import shutil
import sys

import numpy as np

from . import kernel


# ------------------------------------------------------------------------------------------
# wall clock: ampycloud.core.datetime is replaced by a scripted clock
# ------------------------------------------------------------------------------------------
class ScriptedClock:
    """datetime-like class whose now() follows a seeded script: +1 ms steps, stalls, forward
    jumps of hours, backward jumps. ampycloud only logs differences and stringifies ref_dt."""

    def __init__(self, rng, start=None):
        self.rng = rng
        self.t = start or _dt.datetime(2026, 1, 1, 12, 0, 0)
        self.t0 = self.t
        self.lo = self.hi = self.t
        self.calls = 0
        self.kinds = {'step': 0, 'stall': 0, 'forward_jump': 0, 'backward_jump': 0}

    def now(self, tz=None):
        self.calls += 1
        x = self.rng.random()
        if x < 0.55:
            self.t = self.t + _dt.timedelta(milliseconds=1)
            self.kinds['step'] += 1
        elif x < 0.70:
            self.kinds['stall'] += 1
        elif x < 0.85:
            self.t = self.t + _dt.timedelta(hours=self.rng.choice([1, 7, 24 * 400]))
            self.kinds['forward_jump'] += 1
        else:
            self.t = self.t - _dt.timedelta(seconds=self.rng.choice([1, 3600, 86400 * 30]))
            self.kinds['backward_jump'] += 1
        self.lo, self.hi = min(self.lo, self.t), max(self.hi, self.t)
        return self.t

    def span_s(self):
        return (self.hi - self.lo).total_seconds()


@contextlib.contextmanager
def scripted_clock(rng):
    import ampycloud.core as core
    clock = ScriptedClock(rng)
    orig = core.datetime

    class _Dt(_dt.datetime):
        @classmethod
        def now(cls, tz=None):
            return clock.now(tz)
    core.datetime = _Dt
    try:
        yield clock
    finally:
        core.datetime = orig


# ------------------------------------------------------------------------------------------
# global NumPy RNG perturbations (default MT19937 generator)
# ------------------------------------------------------------------------------------------
RNG_KINDS = ('seed', 'draw_uniform', 'draw_normal', 'set_state', 'none')


def perturb_rng(rng, kind, saved_states):
    """Apply one perturbation to the global NumPy RNG; returns a JSON-able description."""
    if kind == 'seed':
        k = rng.randrange(2 ** 32)
        np.random.seed(k)
        return ['seed', k]
    if kind == 'draw_uniform':
        n = rng.randint(1, 700)
        np.random.random(n)
        return ['draw_uniform', n]
    if kind == 'draw_normal':
        n = rng.choice([1, 3, 5, 101])   # odd counts leave a cached Gaussian behind
        np.random.normal(size=n)
        return ['draw_normal', n]
    if kind == 'set_state' and saved_states:
        i = rng.randrange(len(saved_states))
        np.random.set_state(saved_states[i])
        return ['set_state', i]
    return ['none']


# ------------------------------------------------------------------------------------------
# file system: per-run sandbox + audit hook on open()
# ------------------------------------------------------------------------------------------
_OPENS = None


def _audit(event, args):
    if _OPENS is not None and event == 'open':
        path, mode = args[0], args[1]
        if isinstance(mode, str) and any(c in mode for c in 'wax+'):
            _OPENS.append((str(path), mode))


_HOOKED = False


def install_audit():
    global _HOOKED
    if not _HOOKED:
        sys.addaudithook(_audit)
        _HOOKED = True


@contextlib.contextmanager
def record_writes():
    """Records (path, mode) of every open-for-write in the process while active."""
    global _OPENS
    install_audit()
    prev = _OPENS
    _OPENS = []
    try:
        yield _OPENS
    finally:
        _OPENS = prev


@contextlib.contextmanager
def sandbox(tag):
    """An empty directory under /verif/.work used as cwd; removed afterwards."""
    base = os.path.join(kernel.WORK_DIR, 'sandbox', f'{tag}-{os.getpid()}')
    shutil.rmtree(base, ignore_errors=True)
    os.makedirs(base)
    old = os.getcwd()
    os.chdir(base)
    try:
        yield base
    finally:
        os.chdir(old)
        shutil.rmtree(base, ignore_errors=True)


def listing(root):
    out = {}
    for dirpath, _, files in os.walk(root):
        for name in files:
            pth = os.path.join(dirpath, name)
            out[os.path.relpath(pth, root)] = os.path.getsize(pth)
    return out


# ------------------------------------------------------------------------------------------
# time module: every deadline in the system must read the simulated clock
# ------------------------------------------------------------------------------------------
class LogicalTime:
    """Stand-in for the `time` module inside ampycloud modules. The clock is logical: 1 ms per
    line event executed by *any* worker of the active simulation (so a parked worker's clock
    advances while the others run), plus 1 ms per reading. sleep() advances it without blocking.
    The pinned tree reads no clock in its processing path; a change that adds a timeout or a
    deadline becomes deterministic - and replayable - instead of depending on machine load."""

    def __init__(self):
        import time as _time
        self._real = _time
        self.reads = 0
        self.offset = 0.0

    def _now(self):
        from . import threads
        self.reads += 1
        sim = threads.ACTIVE
        steps = sim.gstep if sim is not None else 0
        return 1.0e6 + self.offset + 0.001 * (steps + self.reads)

    def monotonic(self):
        return self._now()

    def perf_counter(self):
        return self._now()

    def time(self):
        return 1.7e9 + self._now()

    def process_time(self):
        return self._now()

    def monotonic_ns(self):
        return int(self._now() * 1e9)

    def time_ns(self):
        return int(self.time() * 1e9)

    def perf_counter_ns(self):
        return int(self._now() * 1e9)

    def sleep(self, secs):
        self.offset += max(0.0, float(secs))

    def __getattr__(self, name):        # everything else (strftime, gmtime, ...) is the real one
        return getattr(self._real, name)


LOGICAL_TIME = LogicalTime()


def install_logical_time():
    """Replace the `time` module (and functions imported from it) in every loaded ampycloud
    module by the logical clock. Returns the number of bindings replaced."""
    import time as _time
    import ampycloud  # noqa: F401  (the processing modules must be loaded before they are patched)
    fns = {getattr(_time, n): n for n in ('time', 'monotonic', 'perf_counter', 'process_time',
                                          'sleep', 'monotonic_ns', 'time_ns', 'perf_counter_ns')}
    count = 0
    for name, mod in list(sys.modules.items()):
        if mod is None or not (name == 'ampycloud' or name.startswith('ampycloud.')):
            continue
        for attr, val in list(vars(mod).items()):
            if val is _time:
                setattr(mod, attr, LOGICAL_TIME)
                count += 1
            else:
                try:
                    hit = fns.get(val)
                except TypeError:
                    hit = None
                if hit:
                    setattr(mod, attr, getattr(LOGICAL_TIME, hit))
                    count += 1
    return count
