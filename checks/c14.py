"""C14 - any order of stage calls raises AmpycloudError or gives the canonical result.

Stage-call history machine: seeded histories over the ten stage/query operations are executed
on one chunk against the five-bit reference model of sim.models and the canonical trajectory of
the same scene (DESIGN section 3, C14).
"""
import itertools
import warnings

from sim import kernel, scenes, prmspace
from sim.digest import chunk_parts, diff_parts
from sim.minimise import shrink_history
from sim.models import StageModel, STAGE_OPS, reachable_stage_pairs

PROP = 'C14'
SCENE_CLASSES = ['merge', 'split', 'merge+split', 'merge', 'merge+split', 'no-hit', 'single-hit',
                 'two-far', 'demo-like', 'msa-crop', 'sparse', 'multi-hit', 'two-valued',
                 'asym-split', 'high-close', 'borderline', 'rng-sensitive', 'multi-merge']
HIST_PER_RUN = 12
MAX_LEN = 14


# ------------------------------------------------------------------------------------------
# executing one history
# ------------------------------------------------------------------------------------------
def _mk_chunk(scene):
    from ampycloud.data import CeiloChunk
    return CeiloChunk(scenes.to_frame(scene), prms=scene.get('prms') or None,
                      geoloc='sim', ref_dt='2026-01-01 00:00:00')


def _do(chunk, op):
    if op == 'FS':
        return chunk.find_slices()
    if op == 'FG':
        return chunk.find_groups()
    if op == 'FL':
        return chunk.find_layers()
    if op == 'SNAP':
        _ = (chunk.slices, chunk.groups, chunk.layers, chunk.n_slices, chunk.n_groups,
             chunk.n_layers, chunk.ceilos, chunk.max_hits_per_layer, chunk.msa,
             chunk.msa_hit_buffer, chunk.clouds_above_msa_buffer, chunk.prms)
        chunk.data_rescaled(dt_mode='shift-and-scale', dt_kwargs={'scale': 100.})
        return None
    which = {'s': 'slices', 'g': 'groups', 'l': 'layers'}[op[2]]
    if op.startswith('MZ'):
        return chunk.metarize(which)
    return chunk.metar_msg(which)


def trajectory(scene):
    """Canonical trajectory: parts after construction, FS, FG, FL on a fresh chunk.
    Returns None when the canonical run itself does not complete (scene not usable here)."""
    from ampycloud.errors import AmpycloudError
    try:
        chunk = _mk_chunk(scene)
        traj = [chunk_parts(chunk)]
        for op in ('FS', 'FG', 'FL'):
            _do(chunk, op)
            traj.append(chunk_parts(chunk))
    except AmpycloudError:
        return None
    return traj


def run_history(scene, ops, traj, cover=None):
    """Execute ops on a fresh chunk. Returns (violation dict | None, n_steps, n_refused)."""
    from ampycloud.errors import AmpycloudError
    model = StageModel()
    chunk = _mk_chunk(scene)
    pre = chunk_parts(chunk)
    if pre != traj[0]:
        return ({'clause': 'construction-not-reproducible', 'op': '-', 'pos': -1,
                 'state': model.key(), 'changed': diff_parts(pre, traj[0])}, 0, 0)
    refused = 0
    for pos, op in enumerate(ops):
        state = model.key()
        if cover is not None:
            cover.add((state, op))
        exc = None
        ret = None
        try:
            ret = _do(chunk, op)
        except AmpycloudError as err:
            exc = err
        except Exception as err:  # any other exception type is a violation of clause (1)
            return ({'clause': 'wrong-exception-type', 'op': op, 'pos': pos, 'state': state,
                     'changed': [type(err).__name__], 'detail': repr(err)[:200]}, pos + 1, refused)
        post = chunk_parts(chunk)
        if exc is not None:
            refused += 1
            if not model.refusal_licensed(op):
                return ({'clause': 'unlicensed-refusal', 'op': op, 'pos': pos, 'state': state,
                         'changed': [], 'detail': repr(exc)[:200]}, pos + 1, refused)
            if post != pre:
                return ({'clause': 'refused-call-mutated', 'op': op, 'pos': pos, 'state': state,
                         'changed': diff_parts(pre, post), 'detail': repr(exc)[:200]},
                        pos + 1, refused)
        else:
            if model.must_refuse(op):
                return ({'clause': 'missing-prerequisite-accepted', 'op': op, 'pos': pos,
                         'state': state, 'changed': []}, pos + 1, refused)
            cands = model.successors(op)
            match = next((m for m in cands if m.expected(traj) == post), None)
            if match is None:
                return ({'clause': 'non-canonical-result', 'op': op, 'pos': pos, 'state': state,
                         'changed': diff_parts(cands[0].expected(traj), post)},
                        pos + 1, refused)
            model = match
            want = post
            if op.startswith('MM'):
                lvl = {'s': 'slices', 'g': 'groups', 'l': 'layers'}[op[2]]
                if repr(('ok', ret)) != want[f'msg.{lvl}']:
                    return ({'clause': 'wrong-message', 'op': op, 'pos': pos, 'state': state,
                             'changed': [f'msg.{lvl}'], 'detail': repr(ret)}, pos + 1, refused)
        pre = post
    return (None, len(ops), refused)


def _signature(vio):
    return {'clause': vio['clause'], 'op': vio['op'], 'layered': int(vio['state'][2]),
            'changed': sorted(c for c in vio['changed'])}


def _package(scene, ops, vio, prelude=()):
    return {'clause': vio['clause'], 'signature': _signature(vio),
            'case': {'scene': scene, 'ops': list(ops), 'prelude': [list(h) for h in prelude]},
            'observed': f'history {" ".join(ops)}: op #{vio["pos"]} {vio["op"]} in model state '
                        f's,g,l,iso,nc={vio["state"]}: {vio["clause"]}; differing components '
                        f'{vio["changed"]} {vio.get("detail", "")}'}


def shrink(vio, evaluate):
    return shrink_history(vio, evaluate, max_runs=80)


def replay(case):
    with warnings.catch_warnings():
        warnings.simplefilter('ignore')
        traj = trajectory(case['scene'])
        if traj is None:
            return None
        for ops in case.get('prelude', []):      # earlier histories of the same process
            run_history(case['scene'], ops, traj)
        vio, _, _ = run_history(case['scene'], case['ops'], traj)
    if vio is None:
        return None
    return _package(case['scene'], case['ops'], vio, case.get('prelude', []))


# ------------------------------------------------------------------------------------------
# generation
# ------------------------------------------------------------------------------------------
def gen_history(rng):
    """Swarm-weighted op mix; half of the histories start with a (possibly partial) canonical
    prefix so that time is not spent on refusals only."""
    weights = [rng.choice([0, 1, 2, 4]) for _ in STAGE_OPS]
    if sum(weights) == 0:
        weights = [1] * len(STAGE_OPS)
    ops = []
    if rng.random() < 0.5:
        ops += ['FS', 'FG', 'FL'][:rng.randint(1, 3)]
    n = rng.randint(1, MAX_LEN - len(ops))
    ops += rng.choices(STAGE_OPS, weights=weights, k=n)
    return ops


def nontrivial(ops, refused):
    """Non-trivial: at least one refused call, or a mutating stage repeated / out of order."""
    if refused:
        return True
    mut = [o for o in ops if o in ('FS', 'FG', 'FL', 'MZs', 'MZg', 'MZl')]
    return mut != ['FS', 'FG', 'FL'][:len(mut)]


def plan(tier, master):
    runs = []
    n_random = 128 if tier == 'quick' else 1600
    for i in range(n_random):
        runs.append({'kind': 'random', 'seed': kernel.run_seed(PROP, master, i)})
    if tier == 'thorough':
        # all histories of length <= 4 over the ten operations on one merge+split scene
        seq = [list(p) for n in range(1, 5) for p in itertools.product(STAGE_OPS, repeat=n)]
        for k in range(0, len(seq), 160):
            runs.append({'kind': 'enum', 'seed': kernel.run_seed(PROP, master, 'enum-scene'),
                         'cls': 'merge+split', 'prefix': [], 'lo': k, 'hi': k + 160, 'maxlen': 4})
        # canonical prefix + all suffixes of length <= 3 on four scenes
        nsuf = sum(10 ** n for n in range(1, 4))
        for j, cls in enumerate(['merge', 'split', 'merge+split', 'demo-like']):
            for k in range(0, nsuf, 160):
                runs.append({'kind': 'enum', 'seed': kernel.run_seed(PROP, master, f'suffix-{j}'),
                             'cls': cls, 'prefix': ['FS', 'FG', 'FL'], 'lo': k, 'hi': k + 160,
                             'maxlen': 3})
    else:
        # quick: canonical prefix + all suffixes of length <= 2 on one merge+split scene
        runs.append({'kind': 'enum', 'seed': kernel.run_seed(PROP, master, 'suffix-q'),
                     'cls': 'merge+split', 'prefix': ['FS', 'FG', 'FL'], 'lo': 0, 'hi': 110,
                     'maxlen': 2})
    return runs


def _diversify(rng, scene):
    """A seeded per-call assignment on top of the leaves that make the scene's class live (the
    stage machine must hold for every parameter set, not only for the packaged defaults)."""
    from sim.models import get_path, leaf_paths
    if rng.random() < 0.4:
        return scene
    dflt = prmspace.packaged_defaults()
    base = {q: get_path(scene['prms'], q) for q in leaf_paths(scene['prms'])}
    names = sorted({r[0] for r in scene['rows']})
    pool = [q for q in prmspace.PROCESSING_LEAVES + prmspace.discovered_leaves(dflt)
            if q not in base and q not in (
                ('MIN_SEP_VALS',), ('MIN_SEP_LIMS',), ('SLICING_PRMS', 'distance_threshold'),
                ('SLICING_PRMS', 'height_scale_kwargs', 'min_range'))]
    extra = prmspace.gen_leaf_values(rng, dflt, n_leaves=0,
                                     must=rng.sample(pool, rng.randint(1, 5)))
    if len(names) > 1 and rng.random() < 0.5:     # exclusion list with a ceilometer that exists
        extra[('EXCLUDE_FOR_BASE_HEIGHT_CALC',)] = [rng.choice(names)]
    for q, v in extra.items():
        base.setdefault(q, v)
    scene['prms'] = prmspace.assign_from_leaves(base)
    return scene


def _usable_scene(rng, cls):
    """Draw scenes of the class until the canonical run completes; return (scene, traj, probe)."""
    for _ in range(8):
        scene = _diversify(rng, scenes.gen_scene(rng, cls))
        info = scenes.probe(scene)
        if info['raised'] is not None:
            continue
        traj = trajectory(scene)
        if traj is not None:
            return scene, traj, info
    return None, None, None


def execute(run):
    out = {'n_eval': 0, 'sigs': [], 'counters': {}, 'samples': [], 'steps': 0, 'violations': [],
           'sets': {'model_state_x_op': set(), 'histories': set()}, 'log': []}
    cnt = out['counters']

    def bump(key, n=1):
        cnt[key] = cnt.get(key, 0) + n

    with warnings.catch_warnings():
        warnings.simplefilter('ignore')
        rng_scene = kernel.stream(run['seed'], 'scene')
        rng_ops = kernel.stream(run['seed'], 'ops')
        if run['kind'] == 'random':
            cls = rng_scene.choice(SCENE_CLASSES)
            hists = None
        else:
            cls = run['cls']
            seq = [list(p) for n in range(1, run['maxlen'] + 1)
                   for p in itertools.product(STAGE_OPS, repeat=n)]
            hists = [run['prefix'] + s for s in seq[run['lo']:run['hi']]]
        scene, traj, info = _usable_scene(rng_scene, cls)
        if scene is None:
            bump('scenes_discarded')
            return out
        for key in ('merge', 'split', 'gmm'):
            bump(f'probe.scene_{key}', int(bool(info.get(key))))
        bump('probe.scene_zero_groups', int(info['n'][1] == 0))
        if hists is None:
            hists = [gen_history(rng_ops) for _ in range(HIST_PER_RUN)]
        shash = kernel.sha(scene['rows'])
        out['log'].append(kernel.sha(repr(traj)))
        reported = set()
        done_hists = []
        for ops in hists:
            cover = set()
            vio, steps, refused = run_history(scene, ops, traj, cover)
            out['n_eval'] += 1
            out['steps'] += steps
            out['log'].append([ops, steps, refused, repr(vio)])
            bump('fault.refused_call', refused)
            bump('fault.repeated_or_out_of_order_permitted_call',
                 int(nontrivial(ops, 0)))
            out['sets']['model_state_x_op'].update(f'{k}|{o}' for k, o in cover)
            hkey = f'{shash}:{"".join(o + "," for o in ops)}'
            out['sets']['histories'].add(hkey)
            if nontrivial(ops, refused):
                out['sigs'].append(hkey)
            if info.get('merge') and 'FL' in ops and 'FG' in ops[ops.index('FL'):]:
                bump('probe.regroup_after_layering_on_merged_scene')
            if len(out['samples']) < 2:
                out['samples'].append({'scene_class': cls, 'n_rows': len(scene['rows']),
                                       'prms': scene['prms'], 'ops': ops,
                                       'refused_calls': refused})
            if vio is not None:
                key = (vio['clause'], vio['op'], tuple(sorted(vio['changed'])))
                if key not in reported:
                    reported.add(key)
                    out['violations'].append(_package(scene, ops[:vio['pos'] + 1], vio,
                                                      done_hists))
            done_hists.append(ops)
    return out


def describe(tier, agg):
    pairs = reachable_stage_pairs()
    covered = {p for p in agg['sets'].get('model_state_x_op', set())}
    return {
        'rule': 'case = (scene, history of stage/query calls on one chunk); histories are seeded '
                '(swarm-weighted op mix, length <= 14, half start with a partial canonical prefix) '
                'plus complete enumerations (quick: FS,FG,FL + all 110 suffixes of length <= 2; '
                'thorough: all 11110 histories of length <= 4 on a merge+split scene and '
                'FS,FG,FL + all 1110 suffixes of length <= 3 on four scenes); non-trivial = '
                'contains a refused call or a mutating stage repeated / out of canonical order; '
                'distinct = distinct (scene rows, op sequence)',
        'assumptions': [
            'reference model: five bits (s,g,l,iso,nc) + canonical trajectory of the same scene '
            'and parameters recorded on a fresh chunk after construction, FS, FG, FL',
            'a refusal is licensed only when a prerequisite is missing or a layering exists and '
            'the call rewrites slices or groups; a licensed refusal must leave the complete '
            'state digest unchanged',
            'no exception is injected inside a stage: the property promises nothing about a '
            'stage that dies half-way',
            'scenes whose canonical run raises are not used (counted as scenes_discarded)',
            '60% of the scenes carry a seeded per-call assignment over 1-5 further leaves '
            '(half of the multi-ceilometer ones an exclusion list naming an existing ceilometer)',
        ],
        'extra': {
            'model_state_x_op_covered': len(covered),
            'model_state_x_op_reachable': len(pairs),
            'distinct_histories': len(agg['sets'].get('histories', set())),
            'simulated_time': 'logical steps only (stage calls); the package has no timers',
            'components_real': ['ampycloud (working tree)', 'numpy', 'pandas', 'scikit-learn',
                                'statsmodels'],
            'components_stubbed': [],
            'fault_kinds_not_injected': {
                'exception inside a stage': 'not part of the statement',
                'network/disk/crash faults': 'the package has no such behaviour'},
        },
    }
