"""C12 - all documented ways of setting parameters are equivalent; reset restores all.

Parameter-route history machine: per-call dict, in-place edit of the global dictionary, YAML file
through set_prms, under poisoned globals, partial / full resets and in-place nested edits.
Oracles: the real global dictionary typed-deep-equals a dict reference model after every
operation (the model's defaults are the harness's own parse of the packaged YAML); every chunk
snapshot equals model(global, overridden by the per-call dict on known keys only); all runs of
one scene whose *effective* parameter values are equal have identical outcomes, whatever route
produced them and whatever the global holds elsewhere; unknown keys warn and add nothing.
"""
import copy
import json
import os
import shutil
import warnings

from sim import kernel, scenes, prmspace
from sim.digest import chunk_parts, parts_digest, typed_diff, typed_repr
from sim.minimise import shrink_history
from sim.models import (model_adjust, model_snapshot, unknown_paths, get_path, set_path,
                        leaf_paths)

PROP = 'C12'
_DEFAULTS = [None]


def defaults():
    if _DEFAULTS[0] is None:
        _DEFAULTS[0] = prmspace.packaged_defaults()
    return copy.deepcopy(_DEFAULTS[0])


def _assign(leaves):
    """[[path list, value], ...] -> nested partial dict."""
    return prmspace.assign_from_leaves({tuple(p): v for p, v in leaves})


def _insert_unknown(assign, unknown):
    for path, val in unknown:
        cur = assign
        for k in path[:-1]:
            cur = cur.setdefault(k, {})
        cur[path[-1]] = copy.deepcopy(val)
    return assign


# ------------------------------------------------------------------------------------------
# executing one history
# ------------------------------------------------------------------------------------------
def _run(scene, prms):
    """Construct + run with per-call prms (or None); returns (outcome, snapshot, n_warnings)."""
    from ampycloud.data import CeiloChunk
    from ampycloud.errors import AmpycloudError, AmpycloudWarning
    with warnings.catch_warnings(record=True) as rec:
        warnings.simplefilter('always')
        try:
            chunk = CeiloChunk(scenes.to_frame(scene), prms=prms, geoloc='c12',
                               ref_dt='2026-01-01 00:00:00')
        except AmpycloudError:
            return 'exc:AmpycloudError@construct', None, 0
        n_warn = sum(1 for w in rec if issubclass(w.category, AmpycloudWarning)
                     and 'nknown' in str(w.message))
    snap = copy.deepcopy(chunk.prms)
    with warnings.catch_warnings():
        warnings.simplefilter('ignore')
        try:
            chunk.find_slices()
            chunk.find_groups()
            chunk.find_layers()
            chunk.metar_msg()
            parts = chunk_parts(chunk)
            parts.pop('prms')       # the snapshot is compared separately (and typed)
            out = parts_digest(parts)
        except AmpycloudError:
            out = 'exc:AmpycloudError'
        except Exception as exc:
            out = 'exc:' + type(exc).__name__
    return out, snap, n_warn


def _pristine_outcome(scene, effective):
    """Outcome of the scene with every effective value passed explicitly per call (evaluated by
    the zygote: a process that has run nothing before)."""
    return _run(scene, effective)[0]


def run_history(scene, ops, sandbox, stats=None, live=None, pristine=None, check_every=3):
    """Returns a violation dict or None. `pristine(scene, effective)` evaluates one run in a
    process without history; every check_every-th run is compared with it."""
    import ampycloud
    from ampycloud import dynamic
    from ampycloud.errors import AmpycloudWarning

    def bump(key, n=1):
        if stats is not None:
            stats[key] = stats.get(key, 0) + n
    dflt = defaults()
    ampycloud.reset_prms()
    model = defaults()
    seen = {}
    last_out = {}
    n_runs = [0]
    try:
        for pos, op in enumerate(ops):
            kind = op[0]
            ran = None
            if kind == 'reset':
                which = op[1]
                ampycloud.reset_prms(which)
                if which is None:
                    model = defaults()
                else:
                    for name in ([which] if isinstance(which, str) else which):
                        model[name] = copy.deepcopy(dflt[name])
                bump('fault.reset_all' if which is None else 'fault.reset_subset')
            elif kind in ('edit_global', 'poison'):
                assign = _assign(op[1])
                prmspace.apply_in_place(dynamic.AMPYCLOUD_PRMS, assign)
                prmspace.apply_in_place(model, assign)
                bump('fault.global_poisoned' if kind == 'poison' else 'fault.global_edited_in_place')
            elif kind == 'inplace':
                path, how, val = tuple(op[1]), op[2], op[3]
                for target in (dynamic.AMPYCLOUD_PRMS, model):
                    leaf = get_path(target, path)
                    if how == 'addkey':
                        leaf[val[0]] = copy.deepcopy(val[1])
                    elif how == 'delkey':
                        leaf.pop(val, None)
                    elif how == 'append':
                        leaf.append(copy.deepcopy(val))
                    elif how == 'setitem0':
                        leaf[0] = copy.deepcopy(val)
                    else:
                        set_path(target, path, copy.deepcopy(val))
                bump('fault.inplace_nested_edit')
            elif kind == 'yaml':
                assign = _insert_unknown(_assign(op[1]), op[2])
                fname = os.path.join(sandbox, f'a{pos}.yml')
                prmspace.write_yaml(assign, fname)
                n_unknown = len(unknown_paths(model, assign))
                with warnings.catch_warnings(record=True) as rec:
                    warnings.simplefilter('always')
                    import pathlib
                    ampycloud.set_prms(pathlib.Path(fname) if pos % 2 else fname)
                n_warn = sum(1 for w in rec if issubclass(w.category, AmpycloudWarning))
                model = model_adjust(model, copy.deepcopy(assign))
                bump('route.yaml')
                if n_warn < n_unknown:
                    return {'clause': 'unknown-key-without-warning', 'op': kind, 'pos': pos,
                            'detail': f'{n_unknown} unknown keys, {n_warn} AmpycloudWarning'}
            elif kind == 'yaml_full':
                # the documented route: copy the packaged file, edit it, feed it to set_prms
                sub = os.path.join(sandbox, f'copy{pos}')
                shutil.rmtree(sub, ignore_errors=True)
                os.makedirs(sub)
                ampycloud.copy_prm_file(save_loc=sub, which='default')
                from ruamel.yaml import YAML
                fname = os.path.join(sub, 'ampycloud_default_prms.yml')
                with open(fname, encoding='utf-8') as fil:
                    full = YAML(typ='safe').load(fil.read())
                if typed_diff(full, dflt):
                    return {'clause': 'copied-file-differs-from-defaults', 'op': kind, 'pos': pos,
                            'detail': f'{typed_diff(full, dflt)[:6]}'}
                prmspace.apply_in_place(full, _assign(op[1]))
                prmspace.write_yaml(full, fname)
                ampycloud.set_prms(fname)
                model = model_adjust(model, copy.deepcopy(full))
                bump('route.yaml_full_file')
            elif kind == 'percall':
                assign = _insert_unknown(_assign(op[1]), op[2])
                assign0 = copy.deepcopy(assign)
                n_unknown = len(unknown_paths(model, assign))
                effective = model_snapshot(model, assign0)
                ran = _run(scene, assign)
                bump('route.percall')
                bump('fault.unknown_keys', n_unknown)
                if ran[1] is not None and ran[2] < n_unknown:
                    return {'clause': 'unknown-key-without-warning', 'op': kind, 'pos': pos,
                            'detail': f'{n_unknown} unknown keys, {ran[2]} AmpycloudWarning'}
            elif kind == 'run':
                effective = copy.deepcopy(model)
                ran = _run(scene, None)
                bump('route.global')
            elif kind == 'live_probe':
                # reach measurement only: was leaf p live for this (scene, A, w)?  no verdict
                base_key, path = op[1], tuple(op[2])
                ran2 = _run(scene, _assign(op[3]))
                if live is not None and base_key in last_out and ran2[0] != last_out[base_key]:
                    live[prmspace.path_str(path)] = live.get(prmspace.path_str(path), 0) + 1
                continue
            else:
                raise kernel.HarnessError(f'unknown op {op}')

            # ---- invariants after every operation
            diff = typed_diff(model, dynamic.AMPYCLOUD_PRMS)
            if diff:
                clause = 'reset-not-exact' if kind == 'reset' else 'global-differs-from-model'
                return {'clause': clause, 'op': kind, 'pos': pos, 'detail': f'paths {diff[:6]}'}
            if ran is not None:
                out, snap, _ = ran
                if snap is not None:
                    sdiff = typed_diff(effective, snap)
                    if sdiff:
                        return {'clause': 'snapshot-differs-from-model', 'op': kind, 'pos': pos,
                                'detail': f'paths {sdiff[:6]}'}
                key = kernel.sha(typed_repr(effective))
                if len(op) > 3 and op[3]:
                    last_out[op[3]] = out
                first = seen.setdefault(key, (out, kind, pos))
                bump('observations')
                n_runs[0] += 1
                same_keys = [tuple(q) for q in leaf_paths(effective)] == \
                    [tuple(q) for q in leaf_paths(dflt)]
                if pristine is not None and snap is not None and first[2] == pos \
                        and n_runs[0] % check_every == 0 and same_keys:
                    want = pristine(scene, copy.deepcopy(effective))
                    bump('probe.run_compared_with_history_free_process')
                    if want != out:
                        return {'clause': 'outcome-differs-from-history-free-process', 'op': kind,
                                'pos': pos, 'detail': f'here {out}, in a process without '
                                                      f'history {want}'}
                if first[0] != out:
                    return {'clause': 'outcome-differs-for-equal-effective-values', 'op': kind,
                            'pos': pos,
                            'detail': f'{first[1]}#{first[2]} gave {first[0]}, {kind}#{pos} gave '
                                      f'{out}'}
                if first[2] != pos:
                    bump('probe.cross_route_comparison' if first[1] != kind
                         else 'probe.same_route_comparison')
    finally:
        ampycloud.reset_prms()
    return None


def _package(scene, ops, vio, prelude=()):
    return {'clause': vio['clause'], 'signature': {'clause': vio['clause'], 'op': vio['op']},
            'case': {'scene': scene, 'ops': ops, 'prelude': [list(h) for h in prelude]},
            'observed': f'op #{vio["pos"]} {vio["op"]}: {vio["clause"]} {vio.get("detail", "")} '
                        f'in {json.dumps(ops)[:500]}'}


def _sandbox():
    pth = os.path.join(kernel.WORK_DIR, PROP, f'sb-{os.getpid()}')
    shutil.rmtree(pth, ignore_errors=True)
    os.makedirs(pth)
    return pth


def shrink(vio, evaluate):
    case = vio['case']
    case['ops'] = [o for o in case['ops'] if o[0] != 'live_probe']
    case['prelude'] = [[o for o in h if o[0] != 'live_probe'] for h in case.get('prelude', [])]
    want = vio['clause']
    return shrink_history(vio, evaluate, max_runs=70,
                          same=lambda v: v is not None and v['clause'] == want)


def replay(case):
    zyg = kernel.Zygote(_pristine_outcome)       # before anything runs in this process
    sandbox = _sandbox()
    try:
        for ops in case.get('prelude', []):       # earlier histories of the same process
            run_history(case['scene'], ops, sandbox)
        vio = run_history(case['scene'], case['ops'], sandbox, pristine=zyg, check_every=1)
    finally:
        zyg.close()
        shutil.rmtree(sandbox, ignore_errors=True)
    return _package(case['scene'], case['ops'], vio, case.get('prelude', [])) if vio else None


# ------------------------------------------------------------------------------------------
# generation
# ------------------------------------------------------------------------------------------
def _leaves_json(leaf_values):
    return [[list(p), v] for p, v in leaf_values.items()]


def gen_block(rng, focus, dflt, tag, base=None):
    """One assignment A through all three routes and under a global poisoned on A's leaves.
    `base`: the leaves that make the scene's class live (part of every assignment)."""
    a = dict(base or {})
    hard = focus in (('LAYERING_PRMS', 'gmm_kwargs', 'scores'),
                     ('LAYERING_PRMS', 'gmm_kwargs', 'rescale_0_to_x'),
                     ('SLICING_PRMS', 'height_scale_kwargs', 'min_range'),
                     ('LAYERING_PRMS', 'gmm_kwargs', 'mode'))
    a.update(prmspace.gen_leaf_values(rng, dflt, must=[focus] if focus else (),
                                      n_leaves=0 if hard else None, allow_default=0.25,
                                      exclude=[q for q in (base or {}) if q != focus]))
    p = prmspace.poison_values(rng, a, dflt)
    aj, pj = _leaves_json(a), _leaves_json(p)
    unknown = []
    if rng.random() < 0.4:
        tmp = {}
        unknown = [[list(q), get_path(tmp, q)] for q in prmspace.add_unknown_keys(rng, tmp, dflt)]
    ops = [['reset', None], ['percall', aj, [], f'{tag}:A'],
           ['edit_global', aj], ['run'],
           ['reset', None], ['yaml', aj, unknown if rng.random() < 0.5 else []], ['run']]
    if rng.random() < 0.35:     # full edited copy of the packaged file, on top of a poisoned global
        ops += [['poison', pj], ['yaml_full', aj], ['run']]
    tops = sorted({q[0] for q in a})
    ops.append(['reset', rng.choice([None, tops, tops[0]])] if rng.random() < 0.7
               else ['reset', None])
    if ops[-1][1] is not None:
        ops.append(['reset', None])
    ops += [['poison', pj], ['percall', aj, unknown, f'{tag}:P']]
    if rng.random() < 0.6:
        # every leaf of the global poisoned, every leaf named explicitly per call: the effective
        # values are those of the first per-call run, whatever stage reads the live global
        full = {q: get_path(dflt, q) for q in prmspace.PROCESSING_LEAVES}
        full.update(a)
        pall = prmspace.all_leaves_poison(rng, dflt, avoid_leaves=full)
        ops += [['reset', None], ['poison', _leaves_json(pall)],
                ['percall', _leaves_json(full), [], f'{tag}:F']]
    if rng.random() < 0.5:
        # a per-call dict that names EVERY top-level key but only one leaf of each nested
        # section, over a global poisoned on every leaf: the un-named nested leaves must come
        # from the global, not from anywhere else
        top = {}
        for key, val in dflt.items():
            if isinstance(val, dict):
                q = rng.choice([q for q in leaf_paths(dflt) if q[0] == key])
                top[q] = a.get(q, get_path(dflt, q))
            else:
                top[(key,)] = a.get((key,), val)
        pall2 = prmspace.all_leaves_poison(rng, dflt, avoid_leaves=top)
        ops += [['reset', None], ['poison', _leaves_json(pall2)],
                ['percall', _leaves_json(top), [], f'{tag}:T']]
    # reach: for up to 3 poisoned leaves, is the leaf live for (scene, A, w)?
    ops.append(['reset', None])
    probe_paths = list(p)
    rng.shuffle(probe_paths)
    if focus in probe_paths:
        probe_paths.remove(focus)
        probe_paths.insert(0, focus)
    for path in probe_paths[:3]:
        mod = dict(a)
        mod[path] = p[path]
        ops.append(['live_probe', f'{tag}:A', list(path), _leaves_json(mod)])
    return ops


def gen_extras(rng, dflt):
    ops = []
    for _ in range(rng.randint(2, 6)):
        x = rng.random()
        if x < 0.25:
            path, how, val = rng.choice([
                (['EXCLUDE_FOR_BASE_HEIGHT_CALC'], 'append', 'C9'),
                (['GROUPING_PRMS', 'height_scale_range'], 'setitem0', 42),
                (['MIN_SEP_VALS'], 'setitem0', 123),
                (['MIN_SEP_LIMS'], 'setitem0', 4321),
                (['LOWESS'], 'replace', {'frac': 0.5, 'it': 2}),
                (['LOWESS'], 'addkey', ['delta', 0.0]),
                (['LOWESS'], 'delkey', 'it'),
                (['LAYERING_PRMS', 'gmm_kwargs'], 'delkey', 'min_prob'),
                (['LAYERING_PRMS', 'gmm_kwargs'], 'addkey', ['random_seed', 45]),
                (['LOWESS'], 'replace', {'frac': 0.5, 'it': 2, 'delta': 1.0}),
                (['LAYERING_PRMS', 'gmm_kwargs'], 'replace',
                 {'scores': 'AIC', 'mode': 'delta', 'min_prob': 1.0, 'delta_mul_gain': 0.9,
                  'rescale_0_to_x': 50}),
            ])
            ops.append(['inplace', path, how, val])
        elif x < 0.45:
            names = rng.sample(sorted(dflt), rng.randint(1, 4))
            ops.append(['reset', names if rng.random() < 0.8 else names[0]])
        elif x < 0.55:
            ops.append(['reset', None])
        elif x < 0.75:
            ops.append(['run'])
        elif x < 0.9:
            a = prmspace.gen_leaf_values(rng, dflt)
            ops.append(['edit_global', _leaves_json(a)])
        else:
            a = prmspace.gen_leaf_values(rng, dflt)
            ops.append(['percall', _leaves_json(a), []])
    ops.append(['run'])
    ops.append(['reset', None])
    return ops


def plan(tier, master):
    n = 96 if tier == 'quick' else 1920
    return [{'seed': kernel.run_seed(PROP, master, i), 'index': i} for i in range(n)]


def warmup():
    import random
    _run(scenes.gen_scene(random.Random(1), 'split'), None)
    defaults()


def execute(run):
    out = {'n_eval': 0, 'sigs': [], 'counters': {}, 'samples': [], 'steps': 0, 'violations': [],
           'sets': {'histories': set()}, 'log': []}
    stats = out['counters']
    live = {}
    rng_scene = kernel.stream(run['seed'], 'scene')
    rng_ops = kernel.stream(run['seed'], 'ops')
    dflt = defaults()
    rota = prmspace.PROCESSING_LEAVES + [('LAYERING_PRMS', 'gmm_kwargs', 'scores')] * 3 + \
        [('LAYERING_PRMS', 'gmm_kwargs', 'rescale_0_to_x'),
         ('SLICING_PRMS', 'height_scale_kwargs', 'min_range'),
         ('BASE_LVL_HEIGHT_PERC',), ('BASE_LVL_HEIGHT_PERC',)]
    focus = rota[run['index'] % len(rota)]
    classes = prmspace.LIVE_CLASSES.get(focus, prmspace.CLOUDY)
    sandbox = _sandbox()
    prelude = []
    zyg = kernel.Zygote(_pristine_outcome)       # before anything runs in this process
    try:
        for h in range(2):
            scene = scenes.gen_scene(rng_scene, rng_scene.choice(classes))
            base = {q: get_path(scene['prms'], q) for q in leaf_paths(scene['prms'])}
            scene['prms'] = {}
            ops = []
            for b in range(2):
                ops += gen_block(rng_ops, focus if b == 0 else None, dflt, f'b{b}', base)
                if rng_ops.random() < 0.6:
                    ops += gen_extras(rng_ops, dflt)
            vio = run_history(scene, ops, sandbox, stats, live, pristine=zyg)
            out['n_eval'] += 1
            out['steps'] += len(ops)
            out['log'].append([kernel.sha(ops), repr(vio)])
            hkey = kernel.sha([scene['rows'][:3], ops])
            out['sets']['histories'].add(hkey)
            out['sigs'].append(hkey)
            if len(out['samples']) < 1:
                out['samples'].append({'scene_class': scene['cls'], 'rows': len(scene['rows']),
                                       'focus_leaf': prmspace.path_str(focus), 'ops': ops[:14]})
            if vio is not None:
                out['violations'].append(_package(scene, ops[:vio['pos'] + 1], vio, prelude))
                break
            prelude.append(ops)
    finally:
        zyg.close()
        shutil.rmtree(sandbox, ignore_errors=True)
    for leaf, n in live.items():
        stats[f'live.{leaf}'] = n
    return out


def describe(tier, agg):
    cnt = agg['counters']
    target = 3 if tier == 'quick' else 50
    live = {prmspace.path_str(p): cnt.get(f'live.{prmspace.path_str(p)}', 0)
            for p in prmspace.PROCESSING_LEAVES}
    return {
        'rule': 'case = one history on one scene: blocks that push one seeded assignment A '
                'through the three routes (per-call on default global; in-place global edit; '
                'YAML via set_prms) and per-call under a global poisoned on exactly the leaves '
                'of A - and, in 60% of the blocks, under a global poisoned on EVERY leaf with '
                'every leaf named per call; in 35% through an edited full copy of the packaged '
                'file (copy_prm_file) - separated by full / partial resets, plus seeded extras '
                '(in-place nested edits incl. adding / deleting keys, '
                'edits, resets of seeded subsets, unrelated edits and runs, unknown keys at '
                'depth 1-3); every history contains all routes, a poisoned global and a reset, '
                'so every history is non-trivial; distinct = distinct (scene, op list)',
        'assumptions': [
            'reference model: plain dict; defaults = harness parse of the packaged YAML (ruamel '
            'safe loader cross-checked against PyYAML)',
            'outcome oracle: runs of one scene with typed-equal effective parameter values must '
            'have identical digests (exception type included), whatever the route; every third '
            'run is additionally compared with the same scene evaluated, all effective values '
            'passed explicitly, by a zygote process forked before anything ran (history-free; '
            'skipped while the key sets of the global differ from the defaults)',
            'no fault is injected into the YAML read: the property makes no claim under read '
            'errors or malformed files',
            'height_scale_mode stays minmax-scale (the recursive update cannot replace its '
            'kwargs keys); MPL_STYLE affects plots only',
        ],
        'extra': {
            'leaf_live_under_poison': live,
            'leaf_live_target': target,
            'leaves_below_target': sorted(k for k, v in live.items() if v < target),
            'simulated_time': 'logical steps = operations; no clock in this property',
            'components_real': ['ampycloud (working tree)', 'ruamel.yaml', 'the sandbox file '
                                'system (YAML files really written and read)', 'numpy', 'pandas',
                                'scikit-learn'],
            'components_stubbed': [],
            'fault_kinds_not_injected': {'I/O errors on the YAML read': 'no claim in the '
                                                                       'statement'},
        },
    }
