"""C11 - running never modifies caller data, caller parameters or the global parameters.

Construct / stage / run / edit history machine with refused runs and exceptions injected at
seeded line events. After every operation: every caller frame and every dict handed to ampycloud
typed-deep-equals its pristine copy; the global dictionary typed-deep-equals a dict reference
model; every live chunk's snapshot equals its model snapshot (taken at construction); no dict or
list reachable from a chunk's snapshot is shared with the global or with another chunk (witnessed
by a real edit); the final outcome of every chunk equals a reference run with its model snapshot
passed explicitly.
"""
import copy
import json
import os
import shutil
import warnings

import numpy as np
import pandas as pd

from sim import kernel, scenes, prmspace, threads
from sim.digest import chunk_parts, parts_digest, frame_digest, typed_diff
from sim.minimise import shrink_history
from sim.models import model_adjust, model_snapshot, get_path, set_path, leaf_paths

PROP = 'C11'
STAGE_NAMES = ['find_slices', 'find_groups', 'find_layers', 'metar_msg']
REFUSING = {'MIN_SEP_VALS': [150, 1000], 'MIN_SEP_LIMS': [5000, 10000]}
_DEFAULTS = [None]


def defaults():
    if _DEFAULTS[0] is None:
        _DEFAULTS[0] = prmspace.packaged_defaults()
    return copy.deepcopy(_DEFAULTS[0])


# ------------------------------------------------------------------------------------------
# caller-side objects
# ------------------------------------------------------------------------------------------
def build_frame(spec):
    """Caller frame in one of the flavours that trigger ampycloud's clean-up."""
    df = scenes.to_frame(spec['rows'])
    fl = spec.get('flavour', {})
    if fl.get('ceilo') == 'object':
        df['ceilo'] = df['ceilo'].astype(object)
    elif fl.get('ceilo') == 'category':
        df['ceilo'] = df['ceilo'].astype(object).astype('category')
    if fl.get('type') == 'float':
        df['type'] = df['type'].astype(float)
    elif fl.get('type') == 'int32':
        df['type'] = df['type'].astype(np.int32)
    if fl.get('height') == 'float32':
        df['height'] = df['height'].astype(np.float32)
    if fl.get('dt') == 'object':
        df['dt'] = df['dt'].astype(object)
    for name in fl.get('extra', []):
        df[name] = np.arange(len(df)) if name != 'note' else 'x'
    if fl.get('order'):
        cols = [c for c in fl['order'] if c in df.columns] + \
            [c for c in df.columns if c not in fl['order']]
        df = df[cols]
    idx = fl.get('index')
    if idx == 'offset':
        df.index = pd.RangeIndex(100, 100 + len(df))
    elif idx == 'reversed':
        df.index = list(range(len(df) - 1, -1, -1))
    elif idx == 'str':
        df.index = [f'r{i}' for i in range(len(df))]
    elif idx == 'named':
        df.index = pd.Index(range(len(df)), name='hit')
    if fl.get('attrs'):
        df.attrs['source'] = 'caller'
    if fl.get('prechecked'):
        # the documented "validate ahead of time" workflow: the caller's table is the output of
        # ampycloud's own checker (or a subset / copy of it)
        import warnings as _w
        from ampycloud.utils.utils import check_data_consistency
        with _w.catch_warnings():
            _w.simplefilter('ignore')
            try:
                df = check_data_consistency(df)
                if fl['prechecked'] == 'subset':
                    df = df.iloc[: max(2, len(df) - 3)]
                elif fl['prechecked'] == 'copy':
                    df = df.copy()
            except Exception:
                pass
    if fl.get('view'):
        # the caller hands over a slice of a larger frame of theirs
        big = pd.concat([df, df.iloc[:3]], ignore_index=False)
        df = big.iloc[:len(df)]
    return df


def gen_flavour(rng):
    fl = {}
    if rng.random() < 0.4:
        fl['ceilo'] = rng.choice(['object', 'object', 'category'])
    if rng.random() < 0.15:
        fl['view'] = True
    if rng.random() < 0.2:
        fl['prechecked'] = rng.choice(['same', 'subset', 'copy'])
    if rng.random() < 0.4:
        fl['type'] = rng.choice(['float', 'int32'])
    if rng.random() < 0.2:
        fl['height'] = 'float32'
    if rng.random() < 0.15:
        fl['dt'] = 'object'
    if rng.random() < 0.4:
        fl['extra'] = rng.sample(['station', 'note', 'slice_id', 'group_id', 'layer_id'],
                                 rng.randint(1, 2))
    if rng.random() < 0.4:
        order = ['ceilo', 'dt', 'height', 'type']
        rng.shuffle(order)
        fl['order'] = order
    if rng.random() < 0.5:
        fl['index'] = rng.choice(['offset', 'reversed', 'str', 'named'])
    if rng.random() < 0.2:
        fl['attrs'] = True
    return fl


def gen_dict(rng, dflt, scene_prms):
    """Nested partial per-call dict (sometimes with unknown keys, sometimes None)."""
    x = rng.random()
    if x < 0.15:
        return None
    if x < 0.25:
        return copy.deepcopy(REFUSING)
    leaves = {q: get_path(scene_prms, q) for q in leaf_paths(scene_prms)} if rng.random() < 0.5 \
        else {}
    must = []
    if rng.random() < 0.5:     # list-valued leaves are where sharing with the caller can hide
        must = [q for q in rng.sample(prmspace.LIST_LEAVES, rng.choice([1, 2])) if q not in leaves]
    leaves.update(prmspace.gen_leaf_values(rng, dflt, must=must, exclude=list(leaves)))
    out = prmspace.assign_from_leaves(leaves)
    if rng.random() < 0.35:
        prmspace.add_unknown_keys(rng, out, dflt)
    return out


# ------------------------------------------------------------------------------------------
# the machine
# ------------------------------------------------------------------------------------------
class Machine:
    def __init__(self, frames, dicts, sandbox, stats=None, mapping='dict'):
        import ampycloud
        self.amp = ampycloud
        self.mapping = mapping
        self.frame_specs = frames
        self.frames = [build_frame(f) for f in frames]
        self.frame_dig = [frame_digest(f) for f in self.frames]
        self.dicts = dicts
        self.sandbox = sandbox
        self.stats = stats if stats is not None else {}
        self.chunks = []        # dict(chunk, model, passed, pristine, stage, dead, edited, fi)
        ampycloud.reset_prms()
        self.model = defaults()
        self.dflt = defaults()

    def bump(self, key, n=1):
        self.stats[key] = self.stats.get(key, 0) + n

    # -- operations --------------------------------------------------------------------------
    def _new_chunk(self, chunk, fi, passed, pristine, model_snap, stage):
        self.chunks.append({'chunk': chunk, 'model': model_snap, 'passed': passed,
                            'pristine': pristine, 'stage': stage, 'dead': False,
                            'model0': copy.deepcopy(model_snap), 'edits': [], 'fi': fi})

    def _as_mapping(self, dct):
        """The caller's dict in the mapping type of this history (plain dict, defaultdict(dict)
        with plain nested dicts, OrderedDict)."""
        import collections
        if dct is None or self.mapping == 'dict':
            return dct
        if self.mapping == 'defaultdict':
            return collections.defaultdict(dict, dct)
        return collections.OrderedDict(dct)

    def _prep(self, dj):
        pristine = self._as_mapping(copy.deepcopy(self.dicts[dj])) if dj is not None else None
        passed = copy.deepcopy(pristine)
        snap = model_snapshot(self.model, pristine)
        return pristine, passed, snap

    def op_construct(self, fi, dj, inject=None):
        from ampycloud.data import CeiloChunk
        from ampycloud.errors import AmpycloudError
        pristine, passed, snap = self._prep(dj)
        self._last_passed = (passed, pristine)

        def call():
            return CeiloChunk(self.frames[fi], prms=passed, geoloc='c11', ref_dt='t0')
        if inject:
            res, fired, _ = threads.call_with_injection(call, inject[0], _exc(inject[1]))
            if fired:
                self.bump('fault.exception_injected_in_construction')
            if res[0] == 'ok':
                self._new_chunk(res[1], fi, passed, pristine, snap, 0)
            return
        try:
            chunk = call()
        except AmpycloudError:
            self.bump('fault.construction_refused')
            return
        except Exception:      # whether valid input can crash the chain is C08's question
            self.bump('fault.construction_died_other_exception')
            return
        self._new_chunk(chunk, fi, passed, pristine, snap, 0)

    def op_run(self, fi, dj, inject=None):
        from ampycloud.errors import AmpycloudError
        pristine, passed, snap = self._prep(dj)
        self._last_passed = (passed, pristine)

        def call():
            chunk = self.amp.run(self.frames[fi], prms=passed, geoloc='c11', ref_dt='t0')
            chunk.metar_msg()
            return chunk
        if inject:
            res, fired, _ = threads.call_with_injection(call, inject[0], _exc(inject[1]))
            if fired:
                self.bump('fault.exception_injected_in_run')
            if res[0] == 'ok':
                self._new_chunk(res[1], fi, passed, pristine, snap, 4)
            return
        try:
            chunk = call()
        except AmpycloudError:
            self.bump('fault.run_refused_half_way')
            return
        except Exception:
            self.bump('fault.run_died_other_exception')
            return
        self._new_chunk(chunk, fi, passed, pristine, snap, 4)

    def op_stage(self, k, inject=None):
        from ampycloud.errors import AmpycloudError
        if not self.chunks:
            return
        ent = self.chunks[k % len(self.chunks)]
        if ent['dead'] or ent['stage'] >= 4:
            return
        fn = getattr(ent['chunk'], STAGE_NAMES[ent['stage']])
        if inject:
            res, fired, _ = threads.call_with_injection(fn, inject[0], _exc(inject[1]))
            if fired:
                self.bump('fault.exception_injected_in_stage')
            if res[0] == 'exc':
                ent['dead'] = True
                return
        else:
            try:
                fn()
            except AmpycloudError:
                self.bump('fault.stage_refused')
                ent['dead'] = True
                return
            except Exception:
                self.bump('fault.stage_died_other_exception')
                ent['dead'] = True
                return
        ent['stage'] += 1

    def op_edit_global(self, path, value):
        from ampycloud import dynamic
        set_path(dynamic.AMPYCLOUD_PRMS, path, copy.deepcopy(value))
        set_path(self.model, path, copy.deepcopy(value))
        self.bump('fault.global_edited_in_place')

    def op_edit_snapshot(self, k, path, how, value):
        if not self.chunks:
            return
        ent = self.chunks[k % len(self.chunks)]
        for target in (ent['chunk'].prms, ent['model']):
            leaf = get_path(target, path)
            if how == 'append' and isinstance(leaf, list):
                leaf.append(copy.deepcopy(value))
            elif how == 'setitem0' and isinstance(leaf, list) and leaf:
                leaf[0] = copy.deepcopy(value)
            else:
                set_path(target, path, copy.deepcopy(value))
        ent['edits'].append((ent['stage'], path, how, copy.deepcopy(value)))
        # a list value of the caller's dict may be shared with the snapshot (observation, not
        # covered by the statement): the harness's own in-place edit is then visible there
        if ent['passed'] is not None and typed_diff(ent['passed'], ent['pristine']):
            self.bump('observation.caller_list_shared_with_snapshot')
            ent['pristine'] = copy.deepcopy(ent['passed'])
        self.bump('fault.snapshot_edited_in_place')

    def op_edit_caller_dict(self, k, path, value):
        """The caller re-uses (re-binds a leaf of) the dict it passed earlier."""
        if not self.chunks:
            return
        ent = self.chunks[k % len(self.chunks)]
        if ent['passed'] is None:
            return
        cur = ent['passed']
        for key in path[:-1]:
            if not isinstance(cur.get(key), dict):
                return
            cur = cur[key]
        cur[path[-1]] = copy.deepcopy(value)
        ent['pristine'] = copy.deepcopy(ent['passed'])
        self.bump('fault.caller_dict_edited_after_use')

    def op_set_prms(self, leaves, pos):
        assign = prmspace.assign_from_leaves({tuple(p): v for p, v in leaves})
        fname = os.path.join(self.sandbox, f's{pos}.yml')
        prmspace.write_yaml(assign, fname)
        self.amp.set_prms(fname)
        self.model = model_adjust(self.model, copy.deepcopy(assign))
        self.bump('fault.set_prms_yaml')

    def op_reset(self, which):
        self.amp.reset_prms(which)
        if which is None:
            self.model = defaults()
        else:
            for name in ([which] if isinstance(which, str) else which):
                self.model[name] = copy.deepcopy(self.dflt[name])
        self.bump('fault.reset_prms')

    # -- invariants --------------------------------------------------------------------------
    def check(self):
        from ampycloud import dynamic
        for i, frm in enumerate(self.frames):
            if frame_digest(frm) != self.frame_dig[i]:
                from sim.digest import frame_parts
                ref = frame_parts(build_frame(self.frame_specs[i]))
                got = frame_parts(frm)
                return 'caller-frame-modified', sorted(k for k in set(ref) | set(got)
                                                       if ref.get(k) != got.get(k))[:6]
        if getattr(self, '_last_passed', None):
            passed, pristine = self._last_passed
            if passed is not None and typed_diff(passed, pristine):
                return 'caller-dict-modified', typed_diff(passed, pristine)[:6]
        for ent in self.chunks:
            if ent['passed'] is not None:
                diff = typed_diff(ent['passed'], ent['pristine'])
                if diff:
                    return 'caller-dict-modified', diff[:6]
        diff = typed_diff(self.model, dynamic.AMPYCLOUD_PRMS)
        if diff:
            return 'global-differs-from-model', diff[:6]
        for ent in self.chunks:
            diff = typed_diff(ent['model'], ent['chunk'].prms)
            if diff:
                return 'snapshot-differs-from-model', diff[:6]
        return self.alias_scan()

    @staticmethod
    def _containers(obj, path=(), out=None):
        out = {} if out is None else out
        if isinstance(obj, (dict, list)):
            out.setdefault(id(obj), (obj, path))
            items = obj.items() if isinstance(obj, dict) else enumerate(obj)
            for k, v in items:
                Machine._containers(v, path + (k,), out)
        return out

    def alias_scan(self):
        """Identity of containers between a snapshot and the global / another chunk; reported
        only when a real edit through the snapshot is visible on the other side."""
        from ampycloud import dynamic
        glob = self._containers(dynamic.AMPYCLOUD_PRMS)
        per_chunk = [self._containers(ent['chunk'].prms) for ent in self.chunks]
        for k, conts in enumerate(per_chunk):
            others = [('global', glob)] + [(f'chunk{m}', c) for m, c in enumerate(per_chunk)
                                           if m != k]
            for name, other in others:
                shared = set(conts) & set(other)
                for oid in shared:
                    obj, path = conts[oid]
                    if name != 'global':
                        # lists coming from one and the same caller dict are out of scope
                        continue
                    before = copy.deepcopy(dynamic.AMPYCLOUD_PRMS)
                    if isinstance(obj, dict):
                        obj['__verif_sentinel__'] = 1
                    else:
                        obj.append('__verif_sentinel__')
                    leaked = bool(typed_diff(before, dynamic.AMPYCLOUD_PRMS))
                    if isinstance(obj, dict):
                        del obj['__verif_sentinel__']
                    else:
                        obj.pop()
                    if leaked:
                        return 'snapshot-edit-leaks-into-global', ['.'.join(map(str, path))]
        return None

    def final_outcomes(self):
        """Every completed chunk equals a reference run with its construction-time model
        snapshot passed explicitly (global back at the packaged defaults) and the harness's own
        snapshot edits re-applied at the same stage positions."""
        from ampycloud.data import CeiloChunk
        self.amp.reset_prms()
        for k, ent in enumerate(self.chunks):
            if ent['dead'] or ent['stage'] < 4:
                continue
            try:
                ref = CeiloChunk(build_frame(self.frame_specs[ent['fi']]),
                                 prms=copy.deepcopy(ent['model0']), geoloc='c11', ref_dt='t0')
                for st in range(5):
                    for (at, path, how, value) in ent['edits']:
                        if at != st:
                            continue
                        leaf = get_path(ref.prms, path)
                        if how == 'append' and isinstance(leaf, list):
                            leaf.append(copy.deepcopy(value))
                        elif how == 'setitem0' and isinstance(leaf, list) and leaf:
                            leaf[0] = copy.deepcopy(value)
                        else:
                            set_path(ref.prms, path, copy.deepcopy(value))
                    if st < 4:
                        getattr(ref, STAGE_NAMES[st])()
            except Exception:
                continue
            self.bump('probe.outcome_compared_with_reference_run')
            a, b = chunk_parts(ent['chunk']), chunk_parts(ref)
            if a != b:
                return 'outcome-differs-from-reference-run', \
                    sorted(x for x in set(a) | set(b) if a.get(x) != b.get(x))[:6]
        return None


def _exc(name):
    return {'Exception': threads.Injected, 'BaseException': threads.InjectedBase}[name]


def run_history(case, sandbox, stats=None):
    mach = Machine(case['frames'], case['dicts'], sandbox, stats, case.get('mapping', 'dict'))
    try:
        bad = mach.check()
        if bad:
            return {'clause': bad[0], 'op': 'init', 'pos': -1, 'detail': bad[1]}
        for pos, op in enumerate(case['ops']):
            kind = op[0]
            mach._last_passed = None
            if kind == 'construct':
                mach.op_construct(op[1], op[2], op[3] if len(op) > 3 else None)
            elif kind == 'run':
                mach.op_run(op[1], op[2], op[3] if len(op) > 3 else None)
            elif kind == 'stage':
                mach.op_stage(op[1], op[2] if len(op) > 2 else None)
            elif kind == 'edit_global':
                mach.op_edit_global(op[1], op[2])
            elif kind == 'edit_global_many':
                for path, value in op[1]:
                    mach.op_edit_global(path, value)
            elif kind == 'edit_snapshot':
                mach.op_edit_snapshot(op[1], op[2], op[3], op[4])
            elif kind == 'edit_caller_dict':
                mach.op_edit_caller_dict(op[1], op[2], op[3])
            elif kind == 'set_prms':
                mach.op_set_prms(op[1], pos)
            elif kind == 'reset':
                mach.op_reset(op[1])
            else:
                raise kernel.HarnessError(f'unknown op {op}')
            bad = mach.check()
            if bad:
                label = kind + ('+inject' if kind in ('construct', 'run', 'stage')
                                and op[-1] and isinstance(op[-1], list) else '')
                return {'clause': bad[0], 'op': label, 'pos': pos, 'detail': bad[1]}
        bad = mach.final_outcomes()
        if bad:
            return {'clause': bad[0], 'op': 'final', 'pos': len(case['ops']), 'detail': bad[1]}
    finally:
        mach.amp.reset_prms()
    return None


def _package(case, vio):
    return {'clause': vio['clause'], 'signature': {'clause': vio['clause'], 'op': vio['op']},
            'case': case,
            'observed': f'op #{vio["pos"]} {vio["op"]}: {vio["clause"]} at {vio["detail"]} in '
                        f'{json.dumps(case["ops"])[:500]}'}


def _sandbox():
    pth = os.path.join(kernel.WORK_DIR, PROP, f'sb-{os.getpid()}')
    shutil.rmtree(pth, ignore_errors=True)
    os.makedirs(pth)
    return pth


def shrink(vio, evaluate):
    want = vio['clause']
    return shrink_history(vio, evaluate, same=lambda v: v is not None and v['clause'] == want,
                          max_runs=70)


def replay(case):
    sandbox = _sandbox()
    try:
        with warnings.catch_warnings():
            warnings.simplefilter('ignore')
            for pre in case.get('prelude', []):    # earlier histories of the same process
                run_history(pre, sandbox)
            vio = run_history(case, sandbox)
    finally:
        shutil.rmtree(sandbox, ignore_errors=True)
    return _package(case, vio) if vio else None


# ------------------------------------------------------------------------------------------
# generation
# ------------------------------------------------------------------------------------------
EDIT_PATHS = [(['MSA'], 4321), (['MAX_HITS_OKTA0'], 7), (['LOWESS', 'frac'], 0.6),
              (['LOWESS', 'it'], 4), (['SLICING_PRMS', 'dt_scale'], 5000),
              (['SLICING_PRMS', 'height_scale_kwargs', 'min_range'], 750),
              (['GROUPING_PRMS', 'height_pad_perc'], 25),
              (['LAYERING_PRMS', 'gmm_kwargs', 'delta_mul_gain'], 0.85),
              (['LAYERING_PRMS', 'gmm_kwargs', 'scores'], 'AIC'),
              (['LAYERING_PRMS', 'min_okta_to_split'], 5),
              (['BASE_LVL_HEIGHT_PERC'], 50), (['BASE_LVL_LOOKBACK_PERC'], 33),
              (['MAX_HOLES_OKTA8'], 6), (['MSA_HIT_BUFFER'], 300),
              (['GROUPING_PRMS', 'dt_scale'], 600), (['SLICING_PRMS', 'distance_threshold'], 0.1),
              (['LAYERING_PRMS', 'gmm_kwargs', 'rescale_0_to_x'], 0.1),
              (['MIN_SEP_VALS'], [300, 900]),
              (['EXCLUDE_FOR_BASE_HEIGHT_CALC'], ['C1'])]
LIST_EDITS = [(['EXCLUDE_FOR_BASE_HEIGHT_CALC'], 'append', 'C7'),
              (['GROUPING_PRMS', 'height_scale_range'], 'setitem0', 77),
              (['MIN_SEP_VALS'], 'setitem0', 222), (['MIN_SEP_LIMS'], 'setitem0', 6000)]


def gen_ops(rng, n_frames, n_dicts, faults):
    ops = []
    n_chunks = 0
    for _ in range(rng.randint(8, 16)):
        x = rng.random()
        dj = rng.choice([None] + list(range(n_dicts)))
        inj = [rng.randint(1, rng.choice([60, 600, 4000])),
               rng.choice(['Exception', 'BaseException'])] if faults and rng.random() < 0.5 \
            else None
        if x < 0.22:
            ops.append(['construct', rng.randrange(n_frames), dj] + ([inj] if inj else []))
            n_chunks += 1
        elif x < 0.47:
            ops.append(['stage', rng.randrange(max(1, n_chunks))] + ([inj] if inj else []))
        elif x < 0.60:
            ops.append(['run', rng.randrange(n_frames), dj] + ([inj] if inj else []))
            n_chunks += 1
        elif x < 0.66:
            path, val = rng.choice(EDIT_PATHS)
            ops.append(['edit_global', path, val])
        elif x < 0.72:
            # every processing leaf of the global gets another valid value: a chunk built earlier
            # must not notice, whichever stage comes next
            vals = prmspace.all_leaves_poison(rng, defaults())
            ops.append(['edit_global_many', [[list(q), v] for q, v in vals.items()]])
        elif x < 0.84:
            if rng.random() < 0.5:
                path, how, val = rng.choice(LIST_EDITS)
            else:
                path, val = rng.choice(EDIT_PATHS)
                how = 'replace'
            ops.append(['edit_snapshot', rng.randrange(max(1, n_chunks)), path, how, val])
        elif x < 0.89:
            path, val = rng.choice(EDIT_PATHS)
            ops.append(['edit_caller_dict', rng.randrange(max(1, n_chunks)), path, val])
        elif x < 0.94:
            path, val = rng.choice(EDIT_PATHS)
            ops.append(['set_prms', [[path, val]]])
        else:
            ops.append(['reset', rng.choice([None, None, ['LOWESS'], 'MSA',
                                             ['LAYERING_PRMS', 'MIN_SEP_VALS']])])
    for k in range(n_chunks):          # let chunks finish so that outcomes can be compared
        for _ in range(rng.choice([0, 4, 4])):
            ops.append(['stage', k])
    return ops


def plan(tier, master):
    n = 100 if tier == 'quick' else 2000
    return [{'seed': kernel.run_seed(PROP, master, i), 'faults': i % 3 == 2} for i in range(n)]


def warmup():
    import random
    rng = random.Random(1)
    sc = scenes.gen_scene(rng, 'split')
    sb = _sandbox()
    run_history({'frames': [{'rows': sc['rows'], 'flavour': {}}], 'dicts': [{}],
                 'ops': [['run', 0, 0]]}, sb)
    shutil.rmtree(sb, ignore_errors=True)


def execute(run):
    out = {'n_eval': 0, 'sigs': [], 'counters': {}, 'samples': [], 'steps': 0, 'violations': [],
           'sets': {'histories': set()}, 'log': []}
    stats = out['counters']
    rng_scene = kernel.stream(run['seed'], 'scene')
    rng_prms = kernel.stream(run['seed'], 'prms')
    rng_ops = kernel.stream(run['seed'], 'ops')
    dflt = defaults()
    sandbox = _sandbox()
    try:
        with warnings.catch_warnings():
            warnings.simplefilter('ignore')
            prelude = []
            for h in range(4):
                frames, prm_pool = [], []
                for _ in range(rng_scene.choice([1, 2, 2])):
                    sc = scenes.gen_scene(rng_scene, rng_scene.choice(
                        ['split', 'merge', 'demo-like', 'demo-like', 'asym-split', 'asym-split',
                         'borderline', 'two-far', 'msa-crop', 'two-valued', 'high-close', 'multi-merge',
                         'multi-hit', 'rng-sensitive', 'no-hit', 'single-hit', 'vv', 'sparse']))
                    frames.append({'rows': sc['rows'], 'flavour': gen_flavour(rng_scene),
                                   'cls': sc['cls']})
                    prm_pool.append(sc['prms'])
                dicts = [gen_dict(rng_prms, dflt, rng_prms.choice(prm_pool)) for _ in range(3)]
                dicts = [d for d in dicts if d is not None] or [{}]
                ops = gen_ops(rng_ops, len(frames), len(dicts), run['faults'])
                case = {'frames': frames, 'dicts': dicts, 'ops': ops,
                        'mapping': rng_prms.choice(['dict'] * 6 + ['defaultdict'] * 3
                                                   + ['OrderedDict'])}
                stats[f'probe.caller_mapping_{case["mapping"]}'] = \
                    stats.get(f'probe.caller_mapping_{case["mapping"]}', 0) + 1
                vio = run_history(case, sandbox, stats)
                out['n_eval'] += 1
                out['steps'] += len(ops)
                key = 'fault_injecting' if run['faults'] else 'fault_free'
                stats[f'config.{key}'] = stats.get(f'config.{key}', 0) + 1
                out['log'].append([kernel.sha(json.dumps(case)), repr(vio)])
                hkey = kernel.sha([frames[0]['rows'][:3], ops])
                out['sets']['histories'].add(hkey)
                kinds = {o[0] for o in ops}
                if kinds & {'construct', 'run'} and kinds & {'edit_global', 'edit_global_many', 'edit_snapshot',
                                                              'set_prms', 'reset'}:
                    out['sigs'].append(hkey)
                if len(out['samples']) < 1:
                    out['samples'].append({'frames': [{'class': f['cls'], 'rows': len(f['rows']),
                                                       'flavour': f['flavour']} for f in frames],
                                           'dicts': dicts, 'ops': ops})
                if vio is not None:
                    case['prelude'] = prelude
                    if vio['op'] != 'final':
                        case['ops'] = ops[:vio['pos'] + 1]
                    out['violations'].append(_package(case, vio))
                    break
                prelude.append(case)
    finally:
        shutil.rmtree(sandbox, ignore_errors=True)
    return out


def describe(tier, agg):
    return {
        'rule': 'case = one history of 8-16 operations (+ finishing stages) over 1-2 caller '
                'frames in clean-up-triggering flavours (wrong dtypes incl. categorical, extra '
                'columns, shuffled columns, non-default index, attrs, slice of a larger frame, '
                'output / subset / copy of the package\'s own checker) and up to 3 nested per-call '
                'dicts (partial, list leaves in any order, '
                'unknown keys, one that makes the run refuse half-way): construct, next stage of '
                'a chunk, run, in-place edits of the global (single leaf or every leaf) / of a '
                'snapshot (incl. list '
                'mutation) / of a dict passed earlier, set_prms(YAML), reset_prms; one third of '
                'the runs is the fault-injecting configuration (exception raised from the trace '
                'function at a seeded line event of construction, run or stage). Non-trivial = '
                'history both builds chunks and edits/sets/resets parameters; distinct = '
                'distinct (frames, op list)',
        'assumptions': [
            'reference model: plain dicts for the global and for each snapshot (model global at '
            'construction, recursively overridden by the caller dict on known keys)',
            'each call receives its own deep copy of the pooled caller dict; that copy is '
            'compared with its pristine twin after every later operation',
            'a list value of the caller dict shared with the snapshot is an observation only '
            '(the statement speaks about the global and chunks built from it)',
            'aliasing is reported only when a real edit through the snapshot is visible in the '
            'global',
        ],
        'extra': {
            'simulated_time': 'logical steps = operations; no clock in this property',
            'components_real': ['ampycloud (working tree)', 'pandas', 'numpy', 'scikit-learn',
                                'ruamel.yaml + sandbox files for set_prms'],
            'components_stubbed': [],
            'fault_kinds_not_injected': {'I/O errors': 'no claim in the statement'},
        },
    }
