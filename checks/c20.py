"""C20 - diagnostic plotting is total and free of side effects.

Plotting history machine: sequences of diagnostic() calls on a pool of chunks of every class
reachable by run(), interleaved with user-side matplotlib perturbations (rcParams edits, user
figures), in a sandbox directory under an audit hook.
Oracle per plot: nothing raised; rcParams typed-equal before/after (every key, including the
user's perturbations); figure registry unchanged when show=False; chunk digest unchanged; the
set of new files is exactly {stem.fmt}, each non-empty.
"""
import json
import os
import warnings

from sim import kernel, scenes, seams, prmspace
from sim.digest import chunk_parts, parts_digest
from sim.minimise import shrink_history

PROP = 'C20'
POOL_CLASSES = ['no-hit', 'single-hit', 'sparse', 'vv', 'many-sets', 'many-sets', 'msa-crop',
                'demo-like', 'split', 'merge', 'multi-hit', 'two-far', 'rng-sensitive',
                'two-valued', 'high-close']
UPTO = ['raw_data', 'slices', 'groups', 'layers']
USER_RC = [
    ('axes.prop_cycle', "cycler('color', ['r', 'g', 'b'])"),
    ('axes.prop_cycle', "cycler('color', ['#111111'])"),
    ('font.size', 7.0), ('font.size', 17.0), ('lines.linewidth', 3.0), ('axes.grid', True),
    ('xtick.direction', 'out'), ('ytick.right', False), ('figure.dpi', 60.0),
    ('savefig.dpi', 50.0), ('axes.titlesize', 'small'), ('legend.fontsize', 6.0),
    ('figure.max_open_warning', 3), ('axes.facecolor', 'lightyellow'),
    ('mathtext.fontset', 'stix'), ('xtick.minor.visible', False), ('figure.figsize', [4.0, 3.0]),
]
REF_METARS = [None, 'FEW010 BKN035', 'NCD', 'OVC002 ///', 'SCT008 SCT020 BKN045 OVC100']
ORIGINS = [None, 'Human observer', 'LSGG AUTO', 'ref-2']


def rc_snapshot():
    import matplotlib
    return {k: (type(v).__name__, repr(v)) for k, v in matplotlib.rcParams.items()}


def make_chunk(scene, meta):
    import ampycloud
    return ampycloud.run(scenes.to_frame(scene), prms=scene['prms'] or None,
                         geoloc=meta.get('geoloc'), ref_dt=meta.get('ref_dt'))


def run_history(case, stats=None):
    """case: {'scenes': [...], 'metas': [...], 'ops': [...]}. Returns violation dict or None."""
    import matplotlib
    import matplotlib.pyplot as plt
    from cycler import cycler  # noqa: F401  (used by eval of the user's cycler strings)
    from ampycloud.plots import diagnostic

    def bump(key, n=1):
        if stats is not None:
            stats[key] = stats.get(key, 0) + n
    plt.close('all')
    plt.switch_backend('agg')
    matplotlib.rcdefaults()
    chunks = []
    for scene, meta in zip(case['scenes'], case['metas']):
        try:
            chunks.append(make_chunk(scene, meta))
        except Exception:
            chunks.append(None)
    user_figs = []
    with seams.sandbox(f'{PROP}') as root, seams.record_writes() as opens:
        initial_rc = rc_snapshot()
        user_rc = {}
        tex_style = False
        try:
            for pos, op in enumerate(case['ops']):
                kind = op[0]
                if kind == 'user_rc':
                    key, val = USER_RC[op[1]]
                    if key == 'axes.prop_cycle':
                        val = eval(val)  # pylint: disable=eval-used
                    matplotlib.rcParams[key] = val
                    user_rc[key] = True
                    bump('fault.user_rcparams_perturbation')
                    continue
                if kind == 'user_figure':
                    fig = plt.figure()
                    fig.add_subplot(111).plot([0, 1], [0, op[1]])
                    user_figs.append(fig.number)
                    bump('fault.user_owned_figure_open')
                    continue
                if kind == 'user_backend':
                    # the user's own (non-interactive) backend choice; part of rcParams
                    plt.switch_backend(op[1])
                    user_rc['backend'] = True
                    bump(f'probe.user_backend_{op[1]}')
                    continue
                if kind == 'set_style':
                    from ampycloud import dynamic
                    dynamic.AMPYCLOUD_PRMS['MPL_STYLE'] = op[1]
                    tex_style = op[1] in ('latex', 'metsymb')
                    bump(f'probe.style_{op[1]}')
                    continue
                if kind == 'user_close':
                    if user_figs:
                        plt.close(user_figs.pop(0))
                    continue
                # ---- plot
                _, k, upto, show_ceilos, ref_metar, origin, show, stem, fmts = op[:9]
                as_path = len(op) > 9 and bool(op[9])
                abs_stem = stem
                if stem and stem.startswith('{ROOT}/'):    # absolute path inside the sandbox
                    abs_stem = os.path.join(root, stem[len('{ROOT}/'):])
                    stem = stem[len('{ROOT}/'):]
                chunk = chunks[k % len(chunks)]
                if chunk is None:
                    continue
                before_rc = rc_snapshot()
                before_figs = list(plt.get_fignums())
                before_chunk = chunk_parts(chunk)
                before_files = seams.listing(root)
                n_opens = len(opens)
                if stem and os.path.dirname(stem):
                    os.makedirs(os.path.join(root, os.path.dirname(stem)), exist_ok=True)
                if tex_style:
                    # no LaTeX in the sandbox: under the LaTeX styles the figure is built and
                    # closed but never rendered (no file, no show), which needs no LaTeX
                    stem, abs_stem, show = None, None, 0
                    bump('probe.plot_under_latex_style_without_rendering')
                kwargs = {'upto': UPTO[upto], 'show_ceilos': bool(show_ceilos),
                          'ref_metar': REF_METARS[ref_metar],
                          'ref_metar_origin': ORIGINS[origin], 'show': bool(show)}
                if stem:
                    import pathlib
                    kwargs['save_stem'] = pathlib.Path(abs_stem) if as_path else abs_stem
                if fmts != 'default':
                    kwargs['save_fmts'] = fmts
                bump('probe.plot_upto_' + UPTO[upto])
                bump('probe.plot_class_' + case['scenes'][k % len(chunks)]['cls'])
                if len(chunk.ceilos) > 10 and show_ceilos and upto == 0:
                    bump('probe.more_ceilometers_than_colours_shown')
                if (chunk.n_layers or 0) > 8 and upto == 3:
                    bump('probe.more_layers_than_markers')
                if (chunk.n_slices or 0) > 10 and upto >= 1:
                    bump('probe.more_slices_than_colours')
                try:
                    diagnostic(chunk, **kwargs)
                    exc = None
                except Exception as err:   # the statement: raises nothing
                    exc = err
                if show and exc is None:
                    new = [n for n in plt.get_fignums() if n not in before_figs]
                    for num in new:
                        plt.close(num)
                    bump('probe.show_true')
                sig_chunk = {'class': case['scenes'][k % len(chunks)]['cls'],
                             'upto': UPTO[upto]}
                if exc is not None:
                    left = [n for n in plt.get_fignums() if n not in before_figs]
                    for num in left:
                        plt.close(num)
                    return {'clause': 'plot-raised', 'pos': pos,
                            'what': type(exc).__name__, 'sig': sig_chunk,
                            'detail': f'{type(exc).__name__}: {str(exc)[:150]}; figure left '
                                      f'open: {bool(left)}'}
                after_rc = rc_snapshot()
                if after_rc != before_rc:
                    keys = sorted(k2 for k2 in set(after_rc) | set(before_rc)
                                  if after_rc.get(k2) != before_rc.get(k2))
                    return {'clause': 'rcparams-changed', 'pos': pos, 'what': keys[0],
                            'sig': sig_chunk, 'detail': f'keys {keys[:8]}'}
                if list(plt.get_fignums()) != before_figs:
                    return {'clause': 'figure-registry-changed', 'pos': pos, 'what': 'fignums',
                            'sig': sig_chunk,
                            'detail': f'{before_figs} -> {list(plt.get_fignums())}'}
                after_chunk = chunk_parts(chunk)
                if after_chunk != before_chunk:
                    comps = sorted(c for c in after_chunk if after_chunk[c] != before_chunk.get(c))
                    return {'clause': 'chunk-modified', 'pos': pos, 'what': comps[0],
                            'sig': sig_chunk, 'detail': f'components {comps[:8]}'}
                after_files = seams.listing(root)
                new_files = sorted(f for f in after_files if f not in before_files)
                changed = sorted(f for f in before_files
                                 if f in after_files and after_files[f] != before_files[f])
                want = []
                if stem:
                    flist = ['pdf'] if fmts == 'default' or fmts is None else \
                        ([fmts] if isinstance(fmts, str) else list(fmts))
                    want = sorted({f'{stem}.{f}' for f in flist})
                expected_new = sorted(f for f in want if f not in before_files)
                rewritten_ok = set(want) & set(before_files)
                if new_files != expected_new or any(f not in rewritten_ok for f in changed) \
                        or any(f not in after_files for f in before_files):
                    return {'clause': 'unexpected-files', 'pos': pos, 'what': 'files',
                            'sig': sig_chunk,
                            'detail': f'requested {want}, new {new_files}, changed {changed}'}
                empty = [f for f in want if after_files.get(f, 0) == 0]
                if empty:
                    return {'clause': 'empty-file', 'pos': pos, 'what': 'files',
                            'sig': sig_chunk, 'detail': f'{empty}'}
                bump('plots_saved', len(want))
                outside = [p for p, _ in opens[n_opens:]
                           if not os.path.abspath(p).startswith(root)
                           and 'mplconfig' not in p and not p.startswith('/dev/')]
                bump('info.opens_for_write_outside_sandbox', len(outside))
            # ---- end of history: process state equals the initial one + the user's own edits
            final_rc = rc_snapshot()
            drift = sorted(k2 for k2 in final_rc if final_rc[k2] != initial_rc.get(k2)
                           and k2 not in user_rc)
            if drift:
                return {'clause': 'rcparams-changed', 'pos': len(case['ops']), 'what': drift[0],
                        'sig': {'class': '-', 'upto': '-'}, 'detail': f'end-of-history drift '
                                                                      f'{drift[:8]}'}
            if sorted(plt.get_fignums()) != sorted(user_figs):
                return {'clause': 'figure-registry-changed', 'pos': len(case['ops']),
                        'what': 'fignums', 'sig': {'class': '-', 'upto': '-'},
                        'detail': f'user figures {user_figs}, open {plt.get_fignums()}'}
        finally:
            plt.close('all')
            plt.switch_backend('agg')
            matplotlib.rcdefaults()
            from ampycloud import dynamic as _dyn
            _dyn.AMPYCLOUD_PRMS['MPL_STYLE'] = 'base'
    return None


def _package(case, vio):
    sig = {'clause': vio['clause'], 'what': vio['what'] if vio['clause'] == 'plot-raised'
           else vio['clause']}
    if vio['clause'] == 'plot-raised':
        sig['upto'] = vio['sig']['upto']
    return {'clause': vio['clause'], 'signature': sig, 'case': case,
            'observed': f'op #{vio["pos"]} on a {vio["sig"]["class"]} chunk upto='
                        f'{vio["sig"]["upto"]}: {vio["clause"]}: {vio["detail"]}; ops '
                        f'{json.dumps(case["ops"])[:400]}'}


def shrink(vio, evaluate):
    want = (vio['clause'], vio['signature'].get('what'))

    def same(v):
        return v is not None and (v['clause'], v['signature'].get('what')) == want
    small = shrink_history(vio, evaluate, same=same, max_runs=30)
    if small is None:
        return None
    case = small['case']
    n = len(case['scenes'])
    used = sorted({o[1] % n for o in case['ops'] if o[0] == 'plot'})
    if used and len(used) < n:          # keep only the chunks still used
        remap = {old: new for new, old in enumerate(used)}
        ops2 = [[o[0], remap[o[1] % n]] + o[2:] if o[0] == 'plot' else o for o in case['ops']]
        cand = {'scenes': [case['scenes'][i] for i in used],
                'metas': [case['metas'][i] for i in used], 'ops': ops2}
        v2 = evaluate(cand)
        if same(v2):
            return v2
    return small


def replay(case):
    with warnings.catch_warnings():
        warnings.simplefilter('ignore')
        vio = run_history(case)
    return _package(case, vio) if vio else None


# ------------------------------------------------------------------------------------------
def gen_ops(rng, n_chunks):
    ops = []
    n_stems = 0
    if rng.random() < 0.35:     # the user works with another non-interactive backend
        ops.append(['user_backend', rng.choice(['svg', 'pdf', 'ps', 'template'])])
    if rng.random() < 0.3:      # a plot under a LaTeX style earlier in the same process
        ops += [['set_style', rng.choice(['latex', 'metsymb'])],
                ['plot', rng.randrange(n_chunks), rng.randrange(4), 0, 0, 0, 0, None, 'default'],
                ['set_style', rng.choice(['base', None])]]
    for _ in range(rng.randint(6, 14)):
        x = rng.random()
        if x < 0.14:
            ops.append(['user_rc', rng.randrange(len(USER_RC))])
        elif x < 0.22:
            ops.append(['user_figure', rng.randint(1, 5)])
        elif x < 0.25:
            ops.append(['user_close'])
        elif x < 0.33:
            ops.append(['set_style', rng.choice([None, 'base', 'base', 'latex', 'metsymb'])])
        else:
            save = rng.random() < 0.8
            stem = None
            fmts = 'default'
            if save:
                stem = rng.choice([f'plot{n_stems}', f'out/dir{n_stems % 2}/diag{n_stems}',
                                   'same_stem', f'Geneva_2019.01.10-04.{45 + n_stems}.34',
                                   f'run_v1.{n_stems}', f'out/v2.{n_stems % 2}/diag {n_stems}',
                                   f'{{ROOT}}/abs_{n_stems}'])
                n_stems += 1
                fmts = rng.choice([['png'], ['png'], 'png', ['png', 'svg'], ['svg'], 'default',
                                   ['pdf'], ['png', 'pdf', 'svg'], None])
            ops.append(['plot', rng.randrange(n_chunks), rng.randrange(4),
                        int(rng.random() < 0.5), rng.randrange(len(REF_METARS)),
                        rng.randrange(len(ORIGINS)), int(rng.random() < 0.12), stem, fmts,
                        int(rng.random() < 0.2)])
    return ops


def plan(tier, master):
    n = 96 if tier == 'quick' else 1440
    return [{'seed': kernel.run_seed(PROP, master, i)} for i in range(n)]


def warmup():
    import random
    sc = scenes.gen_scene(random.Random(2), 'two-far')
    run_history({'scenes': [sc], 'metas': [{}],
                 'ops': [['plot', 0, 3, 0, 0, 0, 0, 'w', ['png']]]})


def execute(run):
    out = {'n_eval': 0, 'sigs': [], 'counters': {}, 'samples': [], 'steps': 0, 'violations': [],
           'sets': {'histories': set(), 'plot_configs': set()}, 'log': []}
    stats = out['counters']
    rng_scene = kernel.stream(run['seed'], 'scene')
    rng_ops = kernel.stream(run['seed'], 'ops')
    with warnings.catch_warnings():
        warnings.simplefilter('ignore')
        pool, metas = [], []
        for _ in range(3):
            sc = scenes.gen_scene(rng_scene, rng_scene.choice(POOL_CLASSES))
            if rng_scene.random() < 0.3 and 'MSA' not in sc['prms']:
                sc['prms'] = dict(sc['prms'], MSA=rng_scene.choice([3000, 9000]))
            if rng_scene.random() < 0.5:     # the plot reads several leaves of the chunk snapshot
                from sim.models import get_path, leaf_paths
                leaves = {q: get_path(sc['prms'], q) for q in leaf_paths(sc['prms'])}
                extra = prmspace.gen_leaf_values(
                    rng_scene, prmspace.packaged_defaults(), n_leaves=0,
                    must=rng_scene.sample([('LOWESS', 'frac'), ('LOWESS', 'it'),
                                           ('GROUPING_PRMS', 'height_pad_perc'),
                                           ('GROUPING_PRMS', 'dt_scale'),
                                           ('SLICING_PRMS', 'dt_scale'),
                                           ('SLICING_PRMS', 'height_scale_kwargs', 'min_range'),
                                           ('MAX_HOLES_OKTA8',), ('MAX_HITS_OKTA0',),
                                           ('EXCLUDE_FOR_BASE_HEIGHT_CALC',),
                                           ('EXCLUDE_FOR_BASE_HEIGHT_CALC',)], 3))
                for q, v in extra.items():
                    leaves.setdefault(q, v)
                sc['prms'] = prmspace.assign_from_leaves(leaves)
            pool.append(sc)
            metas.append({'geoloc': rng_scene.choice([None, 'Geneva', 'LSZH rwy 14', 'LSZH_rwy_14',
                                                      'site 100% b']),
                          'ref_dt': rng_scene.choice([None, '2026-01-01 12:00:00'])})
        ops = gen_ops(rng_ops, len(pool))
        case = {'scenes': pool, 'metas': metas, 'ops': ops}
        vio = run_history(case, stats)
        n_plots = sum(1 for o in ops if o[0] == 'plot')
        out['n_eval'] += n_plots
        out['steps'] += len(ops)
        out['log'].append([kernel.sha(json.dumps(case)), repr(vio)])
        out['sets']['histories'].add(kernel.sha([pool[0]['rows'][:3], ops]))
        for o in ops:
            if o[0] == 'plot':
                cfg = kernel.sha([kernel.sha(pool[o[1] % len(pool)]['rows']), o[2:]])
                out['sets']['plot_configs'].add(cfg)
                out['sigs'].append(cfg)
        if len(out['samples']) < 1:
            out['samples'].append({'chunks': [{'class': s['cls'], 'rows': len(s['rows']),
                                               'prms': s['prms']} for s in pool],
                                   'metas': metas, 'ops': ops})
        if vio is not None:
            case['ops'] = ops[:vio['pos'] + 1]
            out['violations'].append(_package(case, vio))
    return out


def describe(tier, agg):
    return {
        'rule': 'case = one diagnostic() call inside a history of 6-14 operations in one process '
                '(plots of 3 pooled chunks at the four upto levels with seeded show_ceilos / '
                'reference METAR / origin / show / stem (plain, dotted, spaced, nested, absolute, '
                'str or Path) / formats, user rcParams edits incl. short colour cycles, '
                'user-owned figures, user backend switch, MPL_STYLE changes incl. a LaTeX-style '
                'plot earlier in the process); evaluations counts plot calls; every '
                'plot call is checked, so non-trivial = every plot call; distinct = distinct '
                '(chunk rows, plot arguments)',
        'assumptions': [
            'non-interactive backends only (Agg, or svg / pdf / ps / template chosen by the '
            'scripted user at the start of a third of the histories); no LaTeX in the sandbox: '
            'under MPL_STYLE latex / metsymb figures are built and closed but never rendered (no '
            'file, no show); base / None otherwise',
            'text arguments are METAR-like tokens, ISO dates and plain names (no mathtext '
            'metacharacters): that is an input-domain question, not a history question',
            'no fault is injected into savefig: the statement says nothing about failing writes',
            'opens-for-write outside the sandbox (other than the private MPLCONFIGDIR) are '
            'reported as information only',
        ],
        'extra': {
            'simulated_time': 'logical steps = operations; no clock in this property',
            'components_real': ['ampycloud (working tree)', 'matplotlib/Agg, pdf and svg back '
                                'ends', 'the sandbox file system', 'sys audit hook on open()'],
            'components_stubbed': ['the "user" (scripted rcParams edits and figures)'],
            'fault_kinds_not_injected': {'disk full / failing savefig': 'no claim in the '
                                                                         'statement'},
        },
    }
