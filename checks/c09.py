"""C09 - bit-for-bit reproducibility; the global NumPy random state is left alone.

History machine over: RNG perturbations, runs of a small pool of (scene, parameters) pairs under
a scripted clock, demo(), canonical_demo_data(), mock_layers under tmp_seed, tmp_seed bodies
that raise, canonical_demo_data with an exception injected at a seeded line event of the body,
and fresh interpreters with other hash seeds.
Oracles: np.random.get_state() is bit-identical around every ampycloud call (returning or
raising); every digest observed for one (scene, parameters) pair - any position, any RNG state,
any clock, any process, any hash seed - is the same; demo data are bit-identical everywhere.
"""
import json
import os
import subprocess
import sys

import numpy as np

from sim import kernel, scenes, seams, prmspace
from sim.digest import chunk_parts, parts_digest, frame_digest, rng_state_equal
from sim.minimise import shrink_history
from sim.threads import Injected, InjectedBase, src_prefix

PROP = 'C09'
POOL_CLASSES = ['rng-sensitive', 'rng-sensitive', 'split', 'merge+split', 'demo-like', 'two-far',
                'msa-crop', 'single', 'multi-hit', 'many-sets', 'high-close', 'high-close',
                'two-valued', 'asym-split', 'borderline']
HIST_PER_RUN = 4
BODY_FNS = ('mock_layers', 'sin_layer', 'flat_layer')
_BODY_LINES = [None]
STAGE_LEAVES = {
    'slicing': [('SLICING_PRMS', 'distance_threshold'), ('SLICING_PRMS', 'dt_scale'),
                ('SLICING_PRMS', 'height_scale_kwargs', 'min_range')],
    'grouping': [('GROUPING_PRMS', 'height_pad_perc'), ('GROUPING_PRMS', 'dt_scale'),
                 ('GROUPING_PRMS', 'height_scale_range')],
    'layering': [('LAYERING_PRMS', 'gmm_kwargs', 'rescale_0_to_x'),
                 ('LAYERING_PRMS', 'gmm_kwargs', 'scores'),
                 ('LAYERING_PRMS', 'gmm_kwargs', 'delta_mul_gain'),
                 ('LAYERING_PRMS', 'min_okta_to_split')],
    'metar': [('MAX_HITS_OKTA0',), ('MAX_HOLES_OKTA8',), ('BASE_LVL_HEIGHT_PERC',),
              ('BASE_LVL_LOOKBACK_PERC',), ('LOWESS', 'frac'), ('LOWESS', 'it')],
}


# ------------------------------------------------------------------------------------------
# primitive operations (each returns (digest|None, rng_ok, info))
# ------------------------------------------------------------------------------------------
def _guard(fn):
    """Call fn(); report outcome and whether the global NumPy RNG state survived bit for bit."""
    before = np.random.get_state()
    try:
        res = ('ok', fn())
    except BaseException as exc:
        res = ('exc', type(exc).__name__)
    after = np.random.get_state()
    return res, rng_state_equal(before, after)


def op_run(scene):
    import ampycloud

    def call():
        chunk = ampycloud.run(scenes.to_frame(scene), prms=scene['prms'] or None,
                              geoloc='c09', ref_dt='2026-01-01 00:00:00')
        chunk.metar_msg()
        return chunk
    res, rng_ok = _guard(call)
    if res[0] == 'ok':
        chunk = res[1]
        gmm = bool(len(chunk.groups) and (chunk.groups['ncomp'] != -1).any())
        return parts_digest(chunk_parts(chunk)), rng_ok, {'gmm': gmm}
    return 'exc:' + res[1], rng_ok, {}


def op_demo():
    import ampycloud

    def call():
        data, chunk = ampycloud.demo()
        return data, chunk
    res, rng_ok = _guard(call)
    if res[0] != 'ok':
        return 'exc:' + res[1], rng_ok, {}
    data, chunk = res[1]
    parts = chunk_parts(chunk)
    parts.pop('ref_dt', None)      # demo() stamps the (scripted) wall clock into ref_dt
    return frame_digest(data) + '/' + parts_digest(parts), rng_ok, {}


def op_demo_data():
    from ampycloud.utils import mocker
    res, rng_ok = _guard(mocker.canonical_demo_data)
    return (frame_digest(res[1]) if res[0] == 'ok' else 'exc:' + res[1]), rng_ok, {}


def op_mock(seed):
    from ampycloud.utils import mocker, utils

    def call():
        with utils.tmp_seed(seed):
            return mocker.mock_layers(2, 300, 30, [
                {'height': 1000, 'height_std': 50, 'sky_cov_frac': 0.7, 'period': 100,
                 'amplitude': 20},
                {'height': 3000, 'height_std': 100, 'sky_cov_frac': 0.5, 'period': 50,
                 'amplitude': 0}])
    res, rng_ok = _guard(call)
    return (frame_digest(res[1]) if res[0] == 'ok' else 'exc:' + res[1]), rng_ok, {}


def op_tmp_raise(seed, exc_name):
    from ampycloud.utils import utils
    exc = {'Exception': Injected, 'BaseException': InjectedBase,
           'KeyboardInterrupt': KeyboardInterrupt, 'StopIteration': StopIteration}[exc_name]

    def call():
        with utils.tmp_seed(seed):
            np.random.random(7)
            np.random.normal(size=3)
            raise exc('body raises')
    res, rng_ok = _guard(call)
    return 'exc:' + res[1] if res[0] == 'exc' else 'returned', rng_ok, {}


def _body_tracer(at, exc, fired):
    prefix = src_prefix()
    count = [0]

    def local(frame, event, arg):
        if event == 'line' and frame.f_code.co_name in BODY_FNS:
            count[0] += 1
            if count[0] == at:
                fired.append((frame.f_code.co_name, frame.f_lineno))
                raise exc(f'injected at {frame.f_code.co_name}:{frame.f_lineno}')
        return local

    def glob(frame, event, arg):
        if event == 'call' and frame.f_code.co_filename.startswith(prefix):
            return local
        return None
    return glob, count


def body_line_events():
    """Number of line events inside the body functions of canonical_demo_data (measured)."""
    if _BODY_LINES[0] is None:
        from ampycloud.utils import mocker
        glob, count = _body_tracer(-1, Injected, [])
        sys.settrace(glob)
        try:
            mocker.canonical_demo_data()
        finally:
            sys.settrace(None)
        _BODY_LINES[0] = count[0]
    return _BODY_LINES[0]


def op_demo_inject(frac, exc_name):
    """canonical_demo_data() with an exception injected at a line event of the body (frames of
    mock_layers / sin_layer / flat_layer only: below the `with tmp_seed` block)."""
    from ampycloud.utils import mocker
    exc = {'Exception': Injected, 'BaseException': InjectedBase}[exc_name]
    at = max(1, int(frac * body_line_events()))
    fired = []
    glob, _ = _body_tracer(at, exc, fired)

    def call():
        sys.settrace(glob)
        try:
            return mocker.canonical_demo_data()
        finally:
            sys.settrace(None)
    res, rng_ok = _guard(call)
    return ('exc:' + res[1] if res[0] == 'exc' else 'returned'), rng_ok, \
        {'fired': fired[0][0] if fired else None}


# ------------------------------------------------------------------------------------------
# histories
# ------------------------------------------------------------------------------------------
def alone_digest(scene):
    """Digest of one (scene, parameters) pair processed alone in a pristine fork of this process
    (taken before any history ran here): the reference for 'whatever was processed before'."""
    import pickle
    rfd, wfd = os.pipe()
    pid = os.fork()
    if pid == 0:
        code = 1
        try:
            os.close(rfd)
            dig, rng_ok, _ = op_run(scene)
            with os.fdopen(wfd, 'wb') as fil:
                pickle.dump((dig, rng_ok), fil)
            code = 0
        finally:
            os._exit(code)
    os.close(wfd)
    with os.fdopen(rfd, 'rb') as fil:
        data = fil.read()
    os.waitpid(pid, 0)
    if not data:
        raise kernel.HarnessError('forked reference run gave no result')
    return pickle.loads(data)


def alone_references(pool):
    out = {}
    for scene in pool:
        dig, _ = alone_digest(scene)
        out['scene:' + kernel.sha([scene['rows'], scene['prms']])] = dig
    return out


def gen_ops(rng, n_scenes):
    ops = []
    for _ in range(rng.randint(6, 12)):
        x = rng.random()
        if x < 0.30:
            ops.append(['rng', rng.choice(['seed', 'draw_uniform', 'draw_normal', 'set_state'])])
        elif x < 0.62:
            ops.append(['run', rng.randrange(n_scenes)])
        elif x < 0.68:
            ops.append(['demo'])
        elif x < 0.76:
            ops.append(['demo_data'])
        elif x < 0.82:
            ops.append(['mock', rng.randrange(1000)])
        elif x < 0.91:
            ops.append(['tmp_raise', rng.randrange(1000),
                        rng.choice(['Exception', 'BaseException', 'KeyboardInterrupt',
                                    'StopIteration'])])
        else:
            ops.append(['demo_inject', round(rng.random(), 4),
                        rng.choice(['Exception', 'BaseException'])])
    return ops


def concretise(ops, rng):
    """Fix the arguments of RNG perturbations so that the op list is self-contained."""
    out = []
    for op in ops:
        if op[0] == 'rng' and len(op) == 2:
            kind = op[1]
            if kind == 'seed':
                out.append(['rng', 'seed', rng.randrange(2 ** 32)])
            elif kind == 'draw_uniform':
                out.append(['rng', 'draw_uniform', rng.randint(1, 700)])
            elif kind == 'draw_normal':
                out.append(['rng', 'draw_normal', rng.choice([1, 3, 5, 101])])
            else:
                out.append(['rng', 'set_state', rng.randrange(2 ** 32)])
        else:
            out.append(op)
    return out


def apply_rng(op):
    if op[1] == 'seed':
        np.random.seed(op[2])
    elif op[1] == 'draw_uniform':
        np.random.random(op[2])
    elif op[1] == 'draw_normal':
        np.random.normal(size=op[2])
    else:   # replace the whole state by that of another generator, mid-stream, Gaussian cached
        other = np.random.RandomState(op[2])
        other.normal(size=3)
        np.random.set_state(other.get_state())


def run_history(pool, ops, seen, clock_seed, stats=None):
    """Execute one history. `seen` maps subject -> first digest observed (shared across the
    histories of one process). Returns a violation dict or None."""
    def bump(key, n=1):
        if stats is not None:
            stats[key] = stats.get(key, 0) + n
    with seams.scripted_clock(kernel.stream(clock_seed, 'clock')) as clock:
        for pos, op in enumerate(ops):
            kind = op[0]
            if kind == 'rng':
                apply_rng(op)
                bump(f'fault.rng_{op[1]}')
                continue
            if kind == 'run':
                subject = 'scene:' + kernel.sha([pool[op[1]]['rows'], pool[op[1]]['prms']])
                dig, rng_ok, info = op_run(pool[op[1]])
                bump('probe.mixture_model_engaged', int(info.get('gmm', False)))
                bump(f'probe.run_class_{pool[op[1]]["cls"]}')
            elif kind == 'demo':
                subject = 'demo'
                dig, rng_ok, info = op_demo()
            elif kind == 'demo_data':
                subject = 'demo_data'
                dig, rng_ok, info = op_demo_data()
            elif kind == 'mock':
                subject = f'mock:{op[1]}'
                dig, rng_ok, info = op_mock(op[1])
            elif kind == 'tmp_raise':
                subject = None
                dig, rng_ok, info = op_tmp_raise(op[1], op[2])
                bump(f'fault.tmp_seed_body_raises_{op[2]}')
            elif kind == 'demo_inject':
                subject = None
                dig, rng_ok, info = op_demo_inject(op[1], op[2])
                if info.get('fired'):
                    bump(f'fault.exception_injected_in_{info["fired"]}')
            else:
                raise kernel.HarnessError(f'unknown op {op}')
            if not rng_ok:
                return {'clause': 'global-rng-state-changed', 'op': kind, 'pos': pos,
                        'detail': f'outcome {dig}'}
            if subject is not None:
                first = seen.setdefault(subject, dig)
                bump('observations')
                if first != dig:
                    return {'clause': 'digest-differs', 'op': kind, 'pos': pos,
                            'detail': f'{subject}: {first} vs {dig}'}
        if stats is not None:
            for k, v in clock.kinds.items():
                bump(f'fault.clock_{k}', v)
            stats['clock_span_s'] = max(stats.get('clock_span_s', 0), clock.span_s())
    return None


def _package(pool, ops, vio, clock_seed, prelude=None):
    return {'clause': vio['clause'],
            'signature': {'clause': vio['clause'], 'op': vio['op']},
            'case': {'pool': pool, 'ops': ops, 'clock_seed': clock_seed,
                     'prelude': prelude or []},
            'observed': f'op #{vio["pos"]} {vio["op"]} of {json.dumps(ops)[:400]}: '
                        f'{vio["clause"]} {vio.get("detail", "")}'}


def _in_child(payload):
    """Run a payload in a fresh interpreter; returns its JSON answer."""
    work = os.path.join(kernel.WORK_DIR, PROP)
    os.makedirs(work, exist_ok=True)
    pth = os.path.join(work, f'child-{os.getpid()}-{kernel.sha(json.dumps(payload))}.json')
    with open(pth, 'w', encoding='utf-8') as fil:
        json.dump(payload, fil)
    env = dict(os.environ)
    env.update(kernel.PINNED_ENV)
    env['PYTHONHASHSEED'] = str(payload.get('hashseed', 0))
    try:
        proc = subprocess.run([sys.executable, '-m', 'sim.cli', 'child', 'checks.c09', pth],
                              cwd=kernel.VERIF_DIR, env=env, capture_output=True, text=True,
                              timeout=1200, check=False)
    finally:
        os.unlink(pth)
    for line in proc.stdout.splitlines():
        if line.startswith('CHILD-RESULT '):
            return json.loads(line[len('CHILD-RESULT '):])
    raise kernel.HarnessError('fresh process gave no result: ' + (proc.stdout + proc.stderr)[-800:])


def child_main(argv):
    with open(argv[0], encoding='utf-8') as fil:
        payload = json.load(fil)
    if payload['mode'] == 'history':
        seen = {}
        vio = None
        for ops in payload['histories']:
            vio = run_history(payload['pool'], ops, seen, payload['clock_seed'])
            if vio:
                break
        print('CHILD-RESULT ' + json.dumps({'violation': vio, 'seen': seen}))
    return 0


def shrink(vio, evaluate):
    if vio['case'].get('fresh'):
        return evaluate(vio['case'])
    small = shrink_history(vio, evaluate, max_runs=40)
    if small is None:
        return None
    case = small['case']
    ops = [o for h in case.get('prelude', []) for o in h] + case['ops']
    used = sorted({o[1] for o in ops if o[0] == 'run'})
    remap = {old: new for new, old in enumerate(used)}
    cand = dict(case, pool=[case['pool'][i] for i in used], prelude=[],
                ops=[[o[0], remap[o[1]]] if o[0] == 'run' else o for o in ops])
    v = evaluate(cand)
    if v is not None and v['clause'] == small['clause']:
        return v
    return small


def replay(case):
    ops = [o for h in case.get('prelude', []) for o in h] + case['ops']
    if case.get('fresh'):
        return _replay_fresh(case)
    seen = alone_references(case['pool'])
    vio = run_history(case['pool'], ops, seen, case['clock_seed'])
    if vio is None:
        return None
    return _package(case['pool'], case['ops'], vio, case['clock_seed'], case.get('prelude'))


def _replay_fresh(case):
    """Cross-process case: same runs in this interpreter and in a fresh one with another hash
    seed and another prior RNG state."""
    seen = {}
    run_history(case['pool'], case['ops'], seen, case['clock_seed'])
    ans = _in_child({'mode': 'history', 'pool': case['pool'],
                     'histories': [[['rng', 'seed', case['fresh']['rng_seed']]] + case['ops']],
                     'clock_seed': case['clock_seed'] + 1, 'hashseed': case['fresh']['hashseed']})
    if ans['violation']:
        v = ans['violation']
        return _package(case['pool'], case['ops'], v, case['clock_seed'])
    diff = sorted(k for k in seen if k in ans['seen'] and ans['seen'][k] != seen[k])
    if not diff:
        return None
    return {'clause': 'fresh-process-differs',
            'signature': {'clause': 'fresh-process-differs', 'op': 'fresh'},
            'case': case,
            'observed': f'fresh interpreter (PYTHONHASHSEED={case["fresh"]["hashseed"]}) gives '
                        f'other digests for {diff[:4]}'}


# ------------------------------------------------------------------------------------------
# framework interface
# ------------------------------------------------------------------------------------------
def plan(tier, master):
    n = 80 if tier == 'quick' else 1250
    return [{'seed': kernel.run_seed(PROP, master, i), 'fresh': (i % 3 == 0) if tier == 'quick'
             else (i % 6 == 0)} for i in range(n)]


def warmup():
    import random
    op_run(scenes.gen_scene(random.Random(1), 'split') | {'prms': {}})
    body_line_events()


def execute(run):
    out = {'n_eval': 0, 'sigs': [], 'counters': {}, 'samples': [], 'steps': 0, 'violations': [],
           'sets': {'histories': set(), 'subjects': set()}, 'log': []}
    stats = out['counters']
    rng_scene = kernel.stream(run['seed'], 'scene')
    rng_ops = kernel.stream(run['seed'], 'ops')
    rng_fault = kernel.stream(run['seed'], 'fault')
    # NOTE: nothing of ampycloud's pipeline may run in this process before the isolated
    # references have been taken in forks of it (a probe run here would hand its leftovers -
    # e.g. a cache - to those forks and make them agree with the history runs)
    pool = [scenes.gen_scene(rng_scene, rng_scene.choice(POOL_CLASSES)) for _ in range(3)]
    # variants: the same hit table with another value of one parameter leaf, so that state keyed
    # by the data alone (caches) is exercised with different parameters in one process
    dflt = prmspace.packaged_defaults()
    for base in list(pool[:2]):
        from sim.models import get_path, leaf_paths
        leaves = {q: get_path(base['prms'], q) for q in leaf_paths(base['prms'])}
        # some of one pipeline stage's leaves change, everything upstream stays identical: state
        # keyed by the upstream data alone then meets different downstream parameters
        stage_leaves = dict(STAGE_LEAVES)
        new = prmspace.discovered_leaves(dflt)
        if new:             # parameters the harness's table does not know yet
            stage_leaves['discovered'] = new
        kind = rng_scene.choice(sorted(stage_leaves))
        chosen = [q for q in stage_leaves[kind] if rng_scene.random() < 0.5] or \
            [rng_scene.choice(stage_leaves[kind])]
        for path in chosen:
            if path == ('LAYERING_PRMS', 'gmm_kwargs', 'rescale_0_to_x') \
                    and rng_scene.random() < 0.7:
                leaves[path] = rng_scene.choice([1, 0.1, 0.01])
                continue
            leaves[path] = prmspace.gen_value(rng_scene, path,
                                              avoid=[leaves.get(path, get_path(dflt, path))])
        if kind == 'layering':
            leaves[('LAYERING_PRMS', 'gmm_kwargs', 'mode')] = 'delta'
        var = {'cls': base['cls'], 'rows': base['rows'],
               'prms': prmspace.assign_from_leaves(leaves)}
        var['variant_kind'] = kind
        pool.append(var)
    seen, prelude = {}, []
    # reference: every pooled subject processed alone in a pristine fork (before any history);
    # subjects whose isolated run dies with a foreign exception are dropped (C08's question)
    keep = []
    for scene in pool:
        dig, _ = alone_digest(scene)
        if dig.startswith('exc:') and dig != 'exc:AmpycloudError':
            stats['scenes_discarded'] = stats.get('scenes_discarded', 0) + 1
            continue
        keep.append(scene)
        seen['scene:' + kernel.sha([scene['rows'], scene['prms']])] = dig
        if 'variant_kind' in scene:
            key = f'probe.same_rows_other_{scene.pop("variant_kind")}_parameters_in_pool'
            stats[key] = stats.get(key, 0) + 1
    pool = keep
    if not pool:
        return out
    stats['probe.isolated_reference_runs_in_fresh_fork'] = len(pool)
    if pool[0]['cls'] == 'rng-sensitive':
        n_out = scenes.rng_sensitivity(pool[0], seeds=(1, 2, 3))
        stats['probe.rng_sensitive_scene_verified'] = int(n_out > 1)
    positions = {}
    for h in range(HIST_PER_RUN):
        ops = concretise(gen_ops(rng_ops, len(pool)), rng_fault)
        if h == 0:   # arbitrary prior state of this process, recorded as an explicit operation
            ops.insert(0, ['rng', 'seed', rng_fault.randrange(2 ** 32)])
        clock_seed = run['seed'] + h
        vio = run_history(pool, ops, seen, clock_seed, stats)
        out['n_eval'] += 1
        out['steps'] += len(ops)
        out['log'].append([ops, repr(vio)])
        hkey = kernel.sha([kernel.sha([p['rows'][:3] for p in pool]), ops])
        out['sets']['histories'].add(hkey)
        kinds = {o[0] for o in ops}
        if 'rng' in kinds and len(kinds - {'rng'}) >= 1:
            out['sigs'].append(hkey)
        for o in ops:
            if o[0] == 'run':
                positions[o[1]] = positions.get(o[1], 0) + 1
        if len(out['samples']) < 1:
            out['samples'].append({'pool': [{'class': p['cls'], 'rows': len(p['rows']),
                                             'prms': p['prms']} for p in pool], 'ops': ops})
        if vio is not None:
            out['violations'].append(_package(pool, ops[:vio['pos'] + 1], vio, clock_seed,
                                              prelude))
            break
        prelude.append(ops)
    stats['probe.same_scene_at_3_or_more_positions'] = \
        sum(1 for v in positions.values() if v >= 3)
    out['sets']['subjects'].update(seen)
    if run.get('fresh') and not out['violations']:
        hashseed = rng_fault.randrange(1, 2 ** 32 - 1)
        ops = [['run', i] for i in range(len(pool))] + [['demo_data'], ['mock', 7]]
        case = {'pool': pool, 'ops': ops, 'clock_seed': run['seed'], 'prelude': [],
                'fresh': {'hashseed': hashseed, 'rng_seed': rng_fault.randrange(2 ** 32)}}
        ans = _in_child({'mode': 'history', 'pool': pool,
                         'histories': [[['rng', 'seed', case['fresh']['rng_seed']]] + ops],
                         'clock_seed': run['seed'] + 1, 'hashseed': hashseed})
        stats['fault.fresh_process_other_hashseed'] = 1
        out['n_eval'] += 1
        out['log'].append(['fresh', hashseed, ans['seen']])
        diff = sorted(k for k in ans['seen'] if k in seen and seen[k] != ans['seen'][k])
        if ans['violation'] or diff:
            out['violations'].append({
                'clause': 'fresh-process-differs',
                'signature': {'clause': 'fresh-process-differs', 'op': 'fresh'}, 'case': case,
                'observed': f'fresh interpreter (PYTHONHASHSEED={hashseed}) differs in '
                            f'{diff[:4]} / {ans["violation"]}'})
    out['sets']['clock_span'] = {stats.pop('clock_span_s', 0)}
    return out


def describe(tier, agg):
    spans = agg['sets'].pop('clock_span', set())
    return {
        'rule': 'case = one history of 6-12 operations in one process (RNG re-seed / advance / '
                'replace, run of one of up to 5 pooled subjects - 3 scenes plus stage-wise '
                'parameter variants of the same hit tables - under a scripted clock, demo(), '
                'canonical_demo_data(), mock_layers under tmp_seed, tmp_seed body raising four '
                'exception kinds, canonical_demo_data with an exception injected at a seeded '
                'line event of its body), four consecutive histories per process sharing one '
                'digest table, plus fresh interpreters with seeded PYTHONHASHSEED values; '
                'non-trivial = history contains >= 1 RNG perturbation and >= 1 ampycloud call; '
                'distinct = distinct (pool, op list)',
        'assumptions': [
            'reference digest of every pooled subject = the subject processed alone in a fork '
            'taken before anything of the pipeline ran in the process (history-free)',
            'numerical-library thread counts pinned to 1 (the property holds them fixed)',
            'global generator = default MT19937 RandomState; a user swapping the bit generator '
            'class is outside "arbitrary prior global RNG states"',
            'exceptions are injected only in frames below the `with tmp_seed` block (inside '
            'tmp_seed\'s own frame before `try:` the state is legitimately not restored)',
            'demo() chunk digest excludes ref_dt, which is the (scripted) wall clock by design',
        ],
        'extra': {
            'distinct_subjects_observed': len(agg['sets'].get('subjects', ())),
            'scripted_clock_span_s': max(spans) if spans else 0,
            'simulated_time': 'logical steps = operations; wall clock scripted (jumps, stalls)',
            'components_real': ['ampycloud (working tree)', 'numpy global RandomState', 'pandas',
                                'scikit-learn', 'statsmodels', 'fresh CPython interpreters'],
            'components_stubbed': ['wall clock (ampycloud.core.datetime scripted)'],
            'fault_kinds_not_injected': {
                'other bit generators / thread-count changes': 'excluded by the statement',
                'network/disk/crash faults': 'no such behaviour in the package'},
        },
    }
