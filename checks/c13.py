"""C13 - concurrent or interleaved chunks with per-call parameters do not interfere.

(a) stage granularity: the stage sequences construct, find_slices, find_groups, find_layers,
    metar_msg of 2-3 chunks are merged in every (2 chunks: all 252) / a seeded (3 chunks) order
    and called from one thread;
(b) line granularity: 2-3 real threads run ampycloud.run(data, prms=...) + metar_msg() under the
    baton scheduler of sim.threads with seeded strategies.
Oracle: every chunk equals its isolated execution (digest of data, tables, counts, flag,
messages - or exception type); every worker finishes within 20x its isolated line events.
"""
import itertools
import warnings

from sim import kernel, scenes, seams, threads, prmspace
from sim.models import get_path, leaf_paths
from sim.census import Census
from sim.digest import chunk_parts, diff_parts
from sim.minimise import ddmin, shrink_history

PROP = 'C13'
STAGES = ['construct', 'FS', 'FG', 'FL', 'MM']
LINE_CLASSES = ['rng-sensitive', 'split', 'merge', 'multi-merge', 'merge+split', 'demo-like', 'msa-crop',
                'two-far', 'multi-hit', 'single', 'no-hit', 'refused', 'vv']
ALL_MERGES_2 = [tuple(1 if i in c else 0 for i in range(10))
                for c in itertools.combinations(range(10), 5)]


# ------------------------------------------------------------------------------------------
# jobs
# ------------------------------------------------------------------------------------------
def gen_job(rng, cls, density=0.25, twin_of=None):
    """One worker's workload: a scene and its own per-call parameters. With twin_of, the scene
    has the same shape (ceilometers, time stamps, hit types, row labels) as that job's scene but
    other heights: distinct data that collide wherever state is keyed by shape."""
    if twin_of is not None:
        base_scene = dict(twin_of, prms=twin_of.get('class_prms', {}))
        scene = scenes.twin_scene(rng, base_scene)
    elif cls == 'refused':
        scene = scenes.gen_scene(rng, 'two-far')
        scene['cls'] = 'refused'
        scene['prms'] = {'MIN_SEP_VALS': [150, 1000], 'MIN_SEP_LIMS': [5000, 10000]}
    else:
        scene = scenes.gen_scene(rng, cls)
    # distinct per-call parameters per worker: the leaves that make the scene class live, plus a
    # seeded assignment over the other leaves (`density` of them; 1.0 = every leaf non-default)
    scene['class_prms'] = dict(scene.get('prms') or {})
    base = {q: get_path(scene['prms'], q) for q in leaf_paths(scene.get('prms') or {})}
    dflt = _defaults()
    pool = [q for q in prmspace.PROCESSING_LEAVES + prmspace.discovered_leaves(dflt)
            if q not in base
            and q not in (('MIN_SEP_VALS',), ('MIN_SEP_LIMS',), ('BASE_LVL_LOOKBACK_PERC',))]
    k = len(pool) if density >= 1.0 else sum(1 for _ in pool if rng.random() < density)
    extra = prmspace.gen_leaf_values(rng, dflt, n_leaves=0, must=rng.sample(pool, k))
    # keep the workload affordable: very fine slicing multiplies the number of slices (and the
    # line events of a run by 10-20x) without adding kinds of shared state
    cheap = {('SLICING_PRMS', 'distance_threshold'): [0.15, 0.3, 0.5],
             ('SLICING_PRMS', 'height_scale_kwargs', 'min_range'): [2000, 4000, 600]}
    for q, vals in cheap.items():
        if q in extra and extra[q] not in vals:
            extra[q] = rng.choice(vals[:2])
    for q, v in extra.items():
        base.setdefault(q, v)
    scene['prms'] = prmspace.assign_from_leaves(base)
    return scene


_DFLT = [None]


def _defaults():
    if _DFLT[0] is None:
        _DFLT[0] = prmspace.packaged_defaults()
    return _DFLT[0]


def make_job(scene, tag=None):
    tag = scene.get('tag', tag)      # the label belongs to the job, not to its position

    def job():
        import ampycloud
        chunk = ampycloud.run(scenes.to_frame(scene), prms=scene['prms'] or None,
                              geoloc=f'site-{tag}', ref_dt='2026-01-01 00:00:00')
        chunk.metar_msg()
        return chunk_parts(chunk)
    return job


def outcome_diff(ref, got):
    """Components in which a worker's outcome differs from its isolated outcome."""
    if ref[0] != got[0]:
        return [f'outcome:{ref[0]}->{got[0]}']
    if ref[0] == 'ok':
        return diff_parts(ref[1], got[1])
    if ref[0] == 'exc':
        return [] if ref[1] == got[1] else [f'exception:{ref[1]}->{got[1]}']
    return []


def families(changed):
    return sorted({c.split('.')[0].split(':')[0] for c in changed})


# ------------------------------------------------------------------------------------------
# (b) line granularity
# ------------------------------------------------------------------------------------------
def pick_strategy(rng, n_workers, total_steps, fn_counts):
    kind = rng.choice(['uniform', 'uniform', 'few', 'pct', 'directed', 'directed', 'directed',
                       'aligned'])
    if kind == 'uniform':
        return threads.Uniform(rng, rng.choice([0.001, 0.01, 0.1, 1.0]))
    if kind == 'few':
        return threads.FewSwitch(rng, rng.choice([1, 2, 3]), total_steps)
    if kind == 'pct':
        return threads.PCT(rng, n_workers, rng.choice([1, 2, 4]), total_steps)
    if kind == 'directed':
        return threads.Directed(rng)
    return threads.FunctionAligned(rng, n_workers, fn_counts)


class SimResult:
    """Picklable summary of one simulated execution (it ran in its own fork)."""

    def __init__(self, sim, clock, name):
        self.results, self.steps, self.switches = sim.results, sim.steps, sim.switches
        self.probes, self.cores, self.trace_hash = sim.probes, sim.cores, sim.trace_hash
        self._schedule = sim.compact_schedule()
        self.clock_kinds, self.clock_span = clock.kinds, clock.span_s()
        self.sched_name = name

    def compact_schedule(self):
        return self._schedule


def _simulate_here(jobs, sched, caps, with_census, clock_seed):
    seams.install_logical_time()
    census = Census() if with_census else None
    with seams.scripted_clock(kernel.stream(clock_seed, 'clock')) as clock:
        sim = threads.ThreadSim([make_job(s, i) for i, s in enumerate(jobs)], sched,
                                step_caps=caps, census=census).run()
    return SimResult(sim, clock, sched.name)


def simulate(jobs, sched, refs, census=None, clock_seed=0):
    """Run the jobs under sched in a fresh fork; returns (SimResult, mismatches) where
    mismatches is a list of (worker, changed components)."""
    caps = [20 * r[1] + 1000 for r in refs]
    sim = kernel.in_fork(_simulate_here, jobs, sched, caps, census is not None, clock_seed)
    bad = []
    for i, ref in enumerate(refs):
        got = sim.results[i]
        changed = outcome_diff(ref[0], got)
        if changed:
            bad.append((i, changed))
    return sim, bad


def _reference_here(scene, i, clock_seed, with_census, lines):
    seams.install_logical_time()
    census = Census() if with_census else None
    with seams.scripted_clock(kernel.stream(clock_seed, f'clock-ref-{i}')):
        ref = threads.reference_run(make_job(scene, i), lines=lines, census=census)
    return ref, list(threads.reference_run.last_dirty)


def references(jobs, clock_seed=0, census=None, dirty=None, lines=False):
    """Isolated reference of every job: alone, each in its own fresh fork."""
    refs = []
    for i, scene in enumerate(jobs):
        ref, drt = kernel.in_fork(_reference_here, scene, i, clock_seed, census is not None,
                                  lines)
        refs.append(ref)
        if dirty is not None:
            dirty.append(drt)
    return refs


def _line_violation(jobs, schedule, bad, strategy, clock_seed):
    changed = sorted({c for _, ch in bad for c in ch})
    return {'clause': 'isolation-mismatch',
            'signature': {'clause': 'isolation-mismatch', 'level': 'line',
                          'changed': families(changed)},
            'case': {'kind': 'line', 'jobs': jobs, 'schedule': schedule,
                     'clock_seed': clock_seed, 'found_by': strategy},
            'observed': f'{len(jobs)} threads, schedule of {len(schedule)} segments '
                        f'(found by {strategy}): worker(s) {[w for w, _ in bad]} differ from '
                        f'their isolated run in {changed[:12]}'}


def shrink_line(vio, evaluate, budget=45):
    """Drop workers, then delta-debug the run-length schedule, keeping 'some worker differs from
    its isolated run'. Every candidate is evaluated in a fresh fork."""
    left = [budget]

    def test(case):
        if left[0] <= 0:
            return None
        left[0] -= 1
        v = evaluate(case)
        return v if v is not None and v['clause'] == 'isolation-mismatch' else None
    case = dict(vio['case'])
    best = test(case)
    if best is None:
        return None
    if len(case['jobs']) > 2:
        for drop in range(len(case['jobs'])):
            keep = [i for i in range(len(case['jobs'])) if i != drop]
            remap = {old: new for new, old in enumerate(keep)}
            cand = dict(case, jobs=[case['jobs'][i] for i in keep],
                        schedule=[[remap[seg[0]]] + list(seg[1:]) for seg in case['schedule']
                                  if seg[0] in remap])
            v = test(cand)
            if v is not None:
                case, best = cand, v
                break

    def seg_fails(sub):
        return test(dict(case, schedule=sub)) is not None
    small = ddmin(case['schedule'], seg_fails, max_runs=max(0, left[0] - 1))
    left[0] = max(left[0], 1)
    v = test(dict(case, schedule=small))
    return v if v is not None else best


def shrink(vio, evaluate):
    if vio['case']['kind'] == 'line':
        return shrink_line(vio, evaluate)
    return shrink_history(vio, evaluate, ops_key='order', max_runs=40,
                          same=lambda v: v is not None and v['clause'] == 'isolation-mismatch')


SCHEDULES_PER_JOBSET = 3


def window_enum(jobs, refs, dirty, seed, out, bump):
    """Escalation: if a job, run alone, ever has process-global state in flight (fingerprint
    changes), enumerate the schedules whose (up to 4) switches sit at the edges of those windows.
    Costs one fingerprinted solo run per job; enumerates nothing on a tree without such windows.
    Returns True when a violation was recorded."""
    bump('probe.jobs_profiled_for_dirty_windows', len(jobs))
    if not any(dirty):
        return False
    bump('probe.jobs_with_global_state_in_flight', sum(1 for d in dirty if d))
    if len(jobs) > 2:       # enumerate for the two workers with the most windows
        order = sorted(range(len(jobs)), key=lambda i: -len(dirty[i]))[:2]
        jobs, refs, dirty = ([x[i] for i in sorted(order)] for x in (jobs, refs, dirty))
    scheds = threads.window_schedules(dirty, [r[1] for r in refs],
                                      kernel.stream(seed, 'window-enum'))
    for sched in scheds:
        sim, bad = simulate(jobs, threads.Replay(sched), refs, clock_seed=seed)
        out['n_eval'] += 1
        out['steps'] += sum(sim.steps)
        bump('fault.switch_at_dirty_window_edge', sim.switches)
        skey = kernel.sha([kernel.sha([j['rows'][:4] for j in jobs]), sched])
        out['sets']['interleavings'].add(skey)
        out['sigs'].append('window:' + skey)
        if bad:
            out['violations'].append(_line_violation(jobs, sim.compact_schedule(), bad,
                                                     'dirty-window enumeration', seed))
            return True
    return False


def run_line(seed, out, bump, force=None):
    rng_scene = kernel.stream(seed, 'scene')
    n_workers = rng_scene.choice([2, 2, 3])
    classes = [rng_scene.choice(['rng-sensitive', 'rng-sensitive', 'split', 'demo-like',
                                 'multi-merge'])]
    classes += [rng_scene.choice(LINE_CLASSES) for _ in range(n_workers - 1)]
    rng_scene.shuffle(classes)
    if force is not None:                    # stratum: one worker of a class the draw may miss
        classes[0] = force
        bump(f'probe.forced_scene_{force}')
    if force is None and rng_scene.random() < 1 / 16:          # both chunks large (> 1000 hits each)
        classes = ['large', 'large']
        n_workers = 2
        bump('probe.large_job_pair')
    jobs = [gen_job(rng_scene, c) for c in classes]
    if rng_scene.random() < 0.3:
        jobs[1] = gen_job(rng_scene, None, twin_of=jobs[0])
        classes[1] = jobs[1]['cls']
        bump('probe.twin_shape_job_pair')
    for i, job in enumerate(jobs):
        job['tag'] = i
    dirty = []
    refs = references(jobs, seed, census=Census(), dirty=dirty)
    for scene, ref in zip(jobs, refs):
        if ref[0][0] == 'exc' and ref[0][1] != 'AmpycloudError':
            bump('scenes_discarded')       # C08's question, not ours
            return
    for cls in classes:
        bump(f'probe.scene_{cls}')
    if any(r[0][0] == 'exc' for r in refs):
        bump('probe.worker_raising_AmpycloudError')
    total = sum(r[1] for r in refs)
    fn_counts = {}
    for ref in refs:
        for k, v in ref[3].items():
            fn_counts[k] = max(fn_counts.get(k, 0), v)
    if window_enum(jobs, refs, dirty, seed, out, bump):
        return
    for k in range(SCHEDULES_PER_JOBSET):
        rng_sched = kernel.stream(seed, f'sched-{k}')
        sched = pick_strategy(rng_sched, n_workers, total, fn_counts)
        census = Census() if isinstance(sched, threads.Directed) else None
        sim, bad = simulate(jobs, sched, refs, census=census, clock_seed=seed + k)
        out['n_eval'] += 1
        out['steps'] += sum(sim.steps)
        schedule = sim.compact_schedule()
        bump('fault.thread_preemption_at_line', sim.switches)
        bump('fault.preemption_while_global_state_dirty',
             sim.probes.get('parked_while_dirty', 0))
        for key, v in sim.clock_kinds.items():
            bump(f'fault.clock_{key}', v)
        out['clock_span_s'] = max(out.get('clock_span_s', 0), sim.clock_span)
        for key, v in sim.probes.items():
            bump(f'probe.{key}', v)
        bump(f'strategy.{sched.name.split("(")[0]}')
        diverged = sum(1 for i, r in enumerate(refs) if sim.trace_hash[i] != r[2])
        bump('trace_divergence_with_equal_result', diverged if not bad else 0)
        out['sets']['coresidence_pairs'].update(f'{a}|{b}' for a, b in sim.cores)
        skey = kernel.sha([kernel.sha([j['rows'][:4] for j in jobs]), schedule])
        out['sets']['interleavings'].add(skey)
        out['log'].append([sched.name, skey, sim.steps, kernel.sha(repr(sim.results))])
        if sim.probes.get('switch_while_both_in_flight', 0) >= 1:
            out['sigs'].append('line:' + skey)
        if len(out['samples']) < 2:
            out['samples'].append({'level': 'line', 'strategy': sched.name,
                                   'workers': [{'class': s['cls'], 'rows': len(s['rows']),
                                                'prms': s['prms']} for s in jobs],
                                   'isolated_line_events': [r[1] for r in refs],
                                   'switches': sim.switches, 'schedule_head': schedule[:8]})
        if bad:
            out['violations'].append(_line_violation(jobs, schedule, bad, sched.name, seed + k))
            return


# ------------------------------------------------------------------------------------------
# (b') systematic single pre-emption: park worker A at every source line it reaches
# ------------------------------------------------------------------------------------------
def sweep_jobs(seed, dense=True, force_a=None):
    rng = kernel.stream(seed, 'scene')
    ca = rng.choice(['demo-like', 'rng-sensitive', 'merge+split', 'demo-like', 'multi-merge'])
    if force_a is not None:
        ca = force_a
    cb = rng.choice(['demo-like', 'rng-sensitive', 'split'])
    # the parked worker keeps (mostly) default parameters, the other one gets a non-default value
    # for every leaf: whatever parameter-derived state leaks from B is then wrong for A
    job_a = gen_job(rng, ca, density=0.1)
    for _ in range(6):
        job_b = gen_job(rng, cb, density=1.0) if dense else \
            gen_job(rng, None, density=0.3, twin_of=job_a)
        if scenes.probe(job_b, prms=job_b['prms'])['raised'] in (None, 'AmpycloudError'):
            break
    job_a['tag'], job_b['tag'] = 0, 1
    return [job_a, job_b]


def run_sweep(run, out, bump):
    """Worker `a` is parked at the chosen occurrence of each source line it reaches (one line per
    simulated run); the other worker then runs to completion; `a` resumes. Complete for 'one
    pre-emption at that occurrence of every static line reached', for this job pair."""
    jobs = sweep_jobs(run['seed'], run.get('dense', True), run.get('force_a'))
    a = run['dir']
    b = 1 - a
    refs = references(jobs, run['seed'], lines=True)
    if any(r[0][0] == 'exc' and r[0][1] != 'AmpycloudError' for r in refs):
        bump('scenes_discarded')
        return
    lines = refs[a][4]
    keys = sorted(lines)
    out['sets']['sweep_static_lines'] = {f'{run["seed"]}:{a}:{len(keys)}'}
    rng = kernel.stream(run['seed'], f'occ-{run["lo"]}')
    for key in keys[run['lo']:run['hi']]:
        steps = lines[key]
        at = steps[0] if run['occ'] == 'first' else rng.choice(steps)
        schedule = [[a, at], [b, 1 << 40], [a, 1 << 40]]
        sim, bad = simulate(jobs, threads.Replay(schedule), refs, clock_seed=run['seed'])
        out['n_eval'] += 1
        out['steps'] += sum(sim.steps)
        bump('fault.single_preemption_at_static_line')
        bump('fault.thread_preemption_at_line', sim.switches)
        for k, v in sim.probes.items():
            bump(f'probe.{k}', v)
        out['sets']['coresidence_pairs'].update(f'{x}|{y}' for x, y in sim.cores)
        skey = f'sweep:{run["seed"]}:{a}:{key[0]}:{key[1]}:{at}'
        out['sets']['interleavings'].add(skey)
        out['sigs'].append(skey)
        out['log'].append([skey, sim.steps, kernel.sha(repr(sim.results))])
        if len(out['samples']) < 1:
            out['samples'].append({'level': 'line-sweep', 'parked_worker': a,
                                   'parked_at': f'{key[0]}:{key[1]} (line event {at})',
                                   'workers': [{'class': s['cls'], 'rows': len(s['rows']),
                                                'prms': s['prms']} for s in jobs]})
        if bad:
            out['violations'].append(_line_violation(jobs, sim.compact_schedule(), bad,
                                                     f'sweep@{key[0]}:{key[1]}', run['seed']))
            return


# ------------------------------------------------------------------------------------------
# (a) stage granularity
# ------------------------------------------------------------------------------------------
def _stage_step(state, scene, k, tag):
    """Execute stage k of one chunk; state is a one-element list holding the chunk."""
    from ampycloud.data import CeiloChunk
    if k == 0:
        state[0] = CeiloChunk(scenes.to_frame(scene), prms=scene['prms'] or None,
                              geoloc=f'site-{tag}', ref_dt='2026-01-01 00:00:00')
    elif k == 1:
        state[0].find_slices()
    elif k == 2:
        state[0].find_groups()
    elif k == 3:
        state[0].find_layers()
    else:
        state[0].metar_msg()


def stage_trajectory(scene, tag):
    """Isolated execution: list of ('ok', parts) | ('exc', type) after each stage."""
    from ampycloud.errors import AmpycloudError
    state, traj = [None], []
    for k in range(5):
        try:
            _stage_step(state, scene, k, tag)
            traj.append(('ok', chunk_parts(state[0])))
        except AmpycloudError:
            traj.append(('exc', 'AmpycloudError'))
            break
    return traj


def run_merge(jobs, order, trajs):
    """Call the stages of several chunks from one thread in the given merged order.
    Returns list of (chunk, stage, changed) mismatches (first per chunk)."""
    from ampycloud.errors import AmpycloudError
    states = [[None] for _ in jobs]
    pos = [0] * len(jobs)
    dead = [False] * len(jobs)
    bad = []
    for w in order:
        k = pos[w]
        pos[w] += 1
        if dead[w] or k >= len(trajs[w]):
            continue
        try:
            _stage_step(states[w], jobs[w], k, w)
            got = ('ok', chunk_parts(states[w][0]))
        except AmpycloudError:
            got = ('exc', 'AmpycloudError')
            dead[w] = True
        except Exception as exc:
            got = ('exc', type(exc).__name__)
            dead[w] = True
        changed = outcome_diff(trajs[w][k], got)
        if changed:
            bad.append((w, STAGES[k], changed))
            dead[w] = True
    return bad


def _stage_violation(jobs, order, bad):
    changed = sorted({c for _, _, ch in bad for c in ch})
    return {'clause': 'isolation-mismatch',
            'signature': {'clause': 'isolation-mismatch', 'level': 'stage',
                          'changed': families(changed)},
            'case': {'kind': 'stage', 'jobs': jobs, 'order': list(order)},
            'observed': f'stage order {list(order)}: chunk(s) '
                        f'{[(w, st) for w, st, _ in bad]} differ from their isolated run in '
                        f'{changed[:12]}'}


def run_stage(run, out, bump):
    rng_scene = kernel.stream(run['seed'], 'scene')
    n = run['n_chunks']
    classes = [rng_scene.choice(['rng-sensitive', 'merge+split', 'split', 'demo-like'])]
    classes += [rng_scene.choice(LINE_CLASSES) for _ in range(n - 1)]
    jobs = [gen_job(rng_scene, c) for c in classes]
    if run.get('twin'):
        jobs[1] = gen_job(rng_scene, None, twin_of=jobs[0])
        classes[1] = jobs[1]['cls']
        bump('probe.twin_shape_job_pair')
    try:
        trajs = [kernel.in_fork(stage_trajectory, s, i) for i, s in enumerate(jobs)]
    except kernel.HarnessError:
        bump('scenes_discarded')
        return
    out['log'].append(kernel.sha(repr(trajs)))
    for cls in classes:
        bump(f'probe.scene_{cls}')
    if n == 2:
        orders = ALL_MERGES_2[run['lo']:run['hi']]
    else:
        rng_ops = kernel.stream(run['seed'], f'ops-{run["lo"]}')
        base = [w for w in range(n) for _ in range(5)]
        orders = []
        for _ in range(run['hi'] - run['lo']):
            o = list(base)
            rng_ops.shuffle(o)
            orders.append(tuple(o))
    reported = False
    for order in orders:
        bad = kernel.in_fork(run_merge, jobs, order, trajs)     # every merge in a fresh fork
        out['n_eval'] += 1
        out['steps'] += len(order)
        bump('fault.adversarial_stage_order')
        key = f'stage:{kernel.sha([j["rows"][:3] for j in jobs])}:{"".join(map(str, order))}'
        out['sets']['interleavings'].add(key)
        out['log'].append([key, kernel.sha(repr(bad))])
        if len(set(order)) > 1 and order != tuple(sorted(order)):
            out['sigs'].append(key)
        if len(out['samples']) < 1:
            out['samples'].append({'level': 'stage', 'order': list(order),
                                   'chunks': [{'class': s['cls'], 'rows': len(s['rows']),
                                               'prms': s['prms']} for s in jobs]})
        if bad and not reported:
            reported = True
            out['violations'].append(_stage_violation(jobs, order, bad))


# ------------------------------------------------------------------------------------------
# framework interface
# ------------------------------------------------------------------------------------------
def plan(tier, master):
    runs = []
    n_pairs = 2 if tier == 'quick' else 8
    for p in range(n_pairs):
        for lo in range(0, 252, 21):
            runs.append({'kind': 'stage', 'n_chunks': 2, 'lo': lo, 'hi': lo + 21,
                         'seed': kernel.run_seed(PROP, master, f'pair-{p}'), 'twin': p % 2 == 1})
    n3 = 0 if tier == 'quick' else 5000
    for k in range(0, n3, 25):
        runs.append({'kind': 'stage', 'n_chunks': 3, 'lo': k, 'hi': k + 25,
                     'seed': kernel.run_seed(PROP, master, f'triple-{k // 500}')})
    sweeps = [(0, 0, 'first')] if tier == 'quick' else \
        [(p, d, o) for p in range(4) for d in (0, 1) for o in ('first', 'seeded')]
    for (p, d, o) in sweeps:
        for lo in range(0, 900, 15):
            runs.append({'kind': 'sweep', 'seed': kernel.run_seed(PROP, master, f'sweep-{p}'),
                         'dir': d, 'occ': o, 'lo': lo, 'hi': lo + 15, 'dense': p % 2 == 0})
    # stratum: the stalled worker is one whose close-group merging iterates (a long stall inside a
    # loop that is still working is where a deadline, retry budget or progress counter would bite)
    for o in (['first'] if tier == 'quick' else ['first', 'seeded']):
        for lo in range(0, 900, 15):
            runs.append({'kind': 'sweep', 'seed': kernel.run_seed(PROP, master, 'sweep-mm'),
                         'dir': 0, 'occ': o, 'lo': lo, 'hi': lo + 15, 'dense': True,
                         'force_a': 'multi-merge'})
    n_jobsets = 64 if tier == 'quick' else 2000     # x SCHEDULES_PER_JOBSET simulated runs
    per = 1 if tier == 'quick' else 2
    line = []
    for i in range(0, n_jobsets, per):
        line.append({'kind': 'line', 'seeds': [kernel.run_seed(PROP, master, i + j)
                                               for j in range(per)]})
        if i % (8 * per) == 0:      # stratified: a worker whose merge loop iterates, every tier
            line[-1]['force'] = 'multi-merge'
    return line + runs          # the longest runs are dispatched first


def warmup():
    """Import everything lazily imported by a run before the workers are forked."""
    import random
    make_job(gen_job(random.Random(0), 'split'), 0)()


def execute(run):
    out = {'n_eval': 0, 'sigs': [], 'counters': {}, 'samples': [], 'steps': 0, 'violations': [],
           'sets': {'interleavings': set(), 'coresidence_pairs': set()}, 'log': []}
    cnt = out['counters']

    def bump(key, n=1):
        cnt[key] = cnt.get(key, 0) + n
    if run['kind'] == 'stage':
        run_stage(run, out, bump)
    elif run['kind'] == 'sweep':
        run_sweep(run, out, bump)
    else:
        for seed in run['seeds']:
            run_line(seed, out, bump, run.get('force'))
    if 'clock_span_s' in out:
        out['sets']['clock_span'] = {out.pop('clock_span_s')}
    return out


def replay(case):
    jobs = case['jobs']
    if case['kind'] == 'stage':
        trajs = [kernel.in_fork(stage_trajectory, s, i) for i, s in enumerate(jobs)]
        bad = kernel.in_fork(run_merge, jobs, case['order'], trajs)
        return _stage_violation(jobs, case['order'], bad) if bad else None
    refs = references(jobs, case.get('clock_seed', 0))
    _, bad = simulate(jobs, threads.Replay(case['schedule']), refs,
                      clock_seed=case.get('clock_seed', 0))
    if not bad:
        return None
    return _line_violation(jobs, case['schedule'], bad, case.get('found_by', 'replay'),
                           case.get('clock_seed', 0))


def describe(tier, agg):
    spans = agg['sets'].pop('clock_span', set())
    return {
        'rule': 'case = one simulated execution of 2-3 chunks with distinct data and per-call '
                'parameters: (a) a merged order of their five stage calls issued from one '
                'thread (2 chunks: all 252 merges per scene pair; 3 chunks: seeded sample), or '
                '(b) a thread schedule at source-line granularity chosen by a seeded strategy '
                '(uniform p, few-switch k, pct d, directed, function-aligned), or (b\') a '
                'systematic sweep: one pre-emption at every source line reached. Non-trivial = '
                'stage orders that really interleave (not one chunk after the other) / line '
                'schedules with >= 1 switch while >= 2 workers were inside ampycloud code; '
                'distinct = distinct merged order per scene set / distinct run-length schedule',
        'assumptions': [
            'pre-emption happens only at line events of frames under src/ampycloud; numpy, '
            'pandas, scikit-learn, statsmodels calls are atomic steps; no-GIL parallelism and '
            'sub-line races are not explored',
            'the global parameter dictionary holds the packaged defaults and is not edited '
            'during C13 runs (editing it concurrently is documented as not thread-safe)',
            'reference = the same job run alone, in its own fresh fork, under the same tracer '
            '(with the shared-state fingerprint evaluated at every line: the dirty profile)',
            'every simulated execution and every stage-level merge runs in its own fresh fork',
            'a scene whose isolated run raises something other than AmpycloudError is discarded',
        ],
        'extra': {
            'exhaustive_subspace': 'all 252 merges of two 5-stage sequences, for every scene '
                                   'pair of the tier (quick 2, thorough 8); and one pre-emption '
                                   'at the first (thorough: also a seeded later) occurrence of '
                                   'every source line reached by the parked worker, the other '
                                   'worker running to completion meanwhile (quick: 1 job pair, '
                                   'one direction; thorough: 4 pairs, both directions)',
            'sweep_static_lines': sorted(agg['sets'].pop('sweep_static_lines', set())),
            'distinct_interleavings': len(agg['sets'].get('interleavings', ())),
            'dirty_window_note': 'jobs_with_global_state_in_flight and '
                                 'preemption_while_global_state_dirty are 0 on a tree that keeps '
                                 'all working state on the chunk (the unchanged tree): the '
                                 'window-edge enumeration and the parking of the directed '
                                 'strategy only act on trees where a job, run alone, changes '
                                 'process-global state',
            'jobs_with_global_state_in_flight': agg['counters'].get(
                'probe.jobs_with_global_state_in_flight', 0),
            'distinct_coresidence_pairs': len(agg['sets'].get('coresidence_pairs', ())),
            'scripted_clock_span_s': max(spans) if spans else 0,
            'simulated_time': 'logical steps (line events / stage calls); the package has no '
                              'timers, the wall clock it logs is scripted',
            'components_real': ['ampycloud (working tree)', 'numpy', 'pandas', 'scikit-learn',
                                'statsmodels', 'real OS threads (parked on semaphores)'],
            'components_stubbed': ['choice of which thread runs (seeded scheduler)',
                                   'wall clock (ampycloud.core.datetime scripted)',
                                   'the time module as seen from ampycloud modules (logical '
                                   'clock: 1 ms per line event of any worker; the unchanged '
                                   'tree never reads it)'],
            'fault_kinds_not_injected': {
                'message loss/partition/crash-restart/disk faults': 'no such behaviour in the '
                                                                     'package',
                'exceptions inside a worker': 'the statement is about interference only'},
        },
    }
