"""Small realistic edits of ampycloud that keep its test suite green and break one property each.

Used only by the sensitivity self-test, on scratch copies of the repository made outside /repo
and /verif. Each mutant: (id, property, [(file, old, new), ...], what it does).
"""

MUTANTS = []


def _m(mid, prop, edits, what):
    MUTANTS.append({'id': mid, 'property': prop, 'edits': edits, 'what': what})


# ------------------------------------------------------------------------------------------ C13
_m('c13-gmm-global-rng', 'C13', [
    ('src/ampycloud/layer.py',
     """    for n_val in ncomp:
        models[n_val] = GaussianMixture(n_val, covariance_type='spherical',
                                        random_state=random_seed).fit(vals)
""",
     """    with utils.tmp_seed(random_seed):
        for n_val in ncomp:
            models[n_val] = GaussianMixture(n_val, covariance_type='spherical').fit(vals)
""")],
   'mixture fit under tmp_seed with the global generator (as the docstring still describes): '
   'sequentially reproducible, racy between threads')

_m('c13-setup-prms-inplace', 'C13', [
    ('src/ampycloud/data.py',
     """        # First, get a deep copy of the (current) default prms
        full_prms = copy.deepcopy(dynamic.AMPYCLOUD_PRMS)

        # Adjust the prms as warranted by the user
        if prms is not None:
            full_prms = utils.adjust_nested_dict(full_prms, prms)

        return full_prms
""",
     """        # Apply the user prms on top of the defaults, snapshot the outcome, restore the defaults
        if prms is None:
            return copy.deepcopy(dynamic.AMPYCLOUD_PRMS)
        backup = copy.deepcopy(dynamic.AMPYCLOUD_PRMS)
        try:
            utils.adjust_nested_dict(dynamic.AMPYCLOUD_PRMS, prms)
            full_prms = copy.deepcopy(dynamic.AMPYCLOUD_PRMS)
        finally:
            dynamic.AMPYCLOUD_PRMS.clear()
            dynamic.AMPYCLOUD_PRMS.update(backup)

        return full_prms
""")],
   '_setup_prms edits the global dictionary in place and restores it: fine alone, leaks into a '
   'chunk constructed by another thread inside the window')

_m('c13-module-scratch', 'C13', [
    ('src/ampycloud/data.py',
     """        # Finally, let's metarize these slices !
        self.metarize(
            which='slices',
        )
""",
     """        # Finally, let's metarize these slices !
        self.metarize(
            which='slices',
        )
        global _LAST_PAD
        _LAST_PAD = self.prms['GROUPING_PRMS']['height_pad_perc']/100
"""),
    ('src/ampycloud/data.py',
     """            height_pad = self.prms['GROUPING_PRMS']['height_pad_perc']/100
            m_lim = row['height_min'] - height_pad * row['thickness']""",
     """            height_pad = _LAST_PAD
            m_lim = row['height_min'] - height_pad * row['thickness']"""),
    ('src/ampycloud/data.py',
     """# Instantiate the module logger
logger = logging.getLogger(__name__)
""",
     """# Instantiate the module logger
logger = logging.getLogger(__name__)

_LAST_PAD = 0.1
""")],
   'a module-level scratch variable computed in find_slices and consumed in find_groups: '
   'correct for one chunk at a time, wrong when stages of two chunks interleave')

# ------------------------------------------------------------------------------------------ C14
_m('c14-regroup-guard-late', 'C14', [
    ('src/ampycloud/data.py',
     """        if self._layers is not None:
            raise AmpycloudError(
                'Layering already done.'
                ' If you find your groups now, you will loose the'
                ' layering information !'
            )

        # First, make sure""",
     """        # First, make sure""")],
   'the pinned-tree defect: find_groups after find_layers refuses only after rewriting ids')

_m('c14-no-prereq-guard-layers', 'C14', [
    ('src/ampycloud/data.py',
     """        if self._groups is None:
            raise AmpycloudError('Grouping not yet done. You cannot find layers without ' +
                                 'finding groups first !')
""",
     """        if self._slices is None:
            raise AmpycloudError('Grouping not yet done. You cannot find layers without ' +
                                 'finding groups first !')
""")],
   'find_layers tests the wrong prerequisite: after slicing only, it dies with a non-ampycloud '
   'exception instead of refusing')

_m('c14-reslice-drops-downstream', 'C14', [
    ('src/ampycloud/data.py',
     """        # Get a scaled **copy** of the data to feed the clustering algorithm
        tmp = self.data_rescaled(dt_mode='shift-and-scale',
                                 dt_kwargs={'scale': self.prms['SLICING_PRMS']['dt_scale']},""",
     """        # Anything derived from earlier slices is obsolete from here on
        self._groups = None
        self._layers = None

        # Get a scaled **copy** of the data to feed the clustering algorithm
        tmp = self.data_rescaled(dt_mode='shift-and-scale',
                                 dt_kwargs={'scale': self.prms['SLICING_PRMS']['dt_scale']},""")],
   'find_slices silently drops the groups and layers tables (but not the per-hit ids): neither '
   'a refusal nor the canonical result')

# ------------------------------------------------------------------------------------------ C09
_m('c09-gmm-no-random-state', 'C09', [
    ('src/ampycloud/layer.py',
     """        models[n_val] = GaussianMixture(n_val, covariance_type='spherical',
                                        random_state=random_seed).fit(vals)
""",
     """        models[n_val] = GaussianMixture(n_val, covariance_type='spherical').fit(vals)
""")],
   'the fixed random_state is dropped: the fit draws from (and advances) the global generator')

_m('c09-tmp-seed-no-finally', 'C09', [
    ('src/ampycloud/utils/utils.py',
     """    try:
        yield
    finally:
        np.random.set_state(state)
""",
     """    yield
    np.random.set_state(state)
""")],
   'tmp_seed restores the state only when the body returns normally')

_m('c09-demo-data-seeds-globally', 'C09', [
    ('src/ampycloud/utils/mocker.py',
     """    with utils.tmp_seed(42):
        # Actually generate the mock data
        out: DataFrame = mock_layers(n_ceilos, lookback_time, hit_gap, lyrs)
""",
     """    np.random.seed(42)
    # Actually generate the mock data
    out: DataFrame = mock_layers(n_ceilos, lookback_time, hit_gap, lyrs)
""")],
   'canonical_demo_data seeds the global generator and leaves it seeded')

_m('c09-hash-derived-seed', 'C09', [
    ('src/ampycloud/layer.py',
     """        models[n_val] = GaussianMixture(n_val, covariance_type='spherical',
                                        random_state=random_seed).fit(vals)
""",
     """        models[n_val] = GaussianMixture(
            n_val, covariance_type='spherical',
            random_state=(random_seed + hash(scores)) % (2**32)).fit(vals)
""")],
   'a per-process value (str hash) enters the seed: identical within a process, different under '
   'another PYTHONHASHSEED')

# ------------------------------------------------------------------------------------------ C11
_m('c11-shallow-prms-copy', 'C11', [
    ('src/ampycloud/data.py',
     """        full_prms = copy.deepcopy(dynamic.AMPYCLOUD_PRMS)
""",
     """        full_prms = copy.copy(dynamic.AMPYCLOUD_PRMS)
""")],
   'shallow copy of the global dictionary: nested per-call overrides and snapshot edits leak')

_m('c11-no-copy-when-no-prms', 'C11', [
    ('src/ampycloud/data.py',
     """        # First, get a deep copy of the (current) default prms
        full_prms = copy.deepcopy(dynamic.AMPYCLOUD_PRMS)
""",
     """        # Nothing to adjust: use the (current) default prms as they are
        if prms is None:
            return dynamic.AMPYCLOUD_PRMS

        # First, get a deep copy of the (current) default prms
        full_prms = copy.deepcopy(dynamic.AMPYCLOUD_PRMS)
""")],
   'without per-call parameters the chunk holds the global dictionary itself')

_m('c11-no-frame-copies', 'C11', [
    ('src/ampycloud/data.py',
     """        self._data = self._cleanup_pdf(copy.deepcopy(data))
""",
     """        self._data = self._cleanup_pdf(data)
"""),
    ('src/ampycloud/utils/utils.py',
     """    data = copy.deepcopy(pdf)
""",
     """    data = pdf
""")],
   'both deep copies of the caller frame removed: dtype fixes and dropped columns hit the caller')

_m('c11-adjust-pops-user-dict', 'C11', [
    ('src/ampycloud/utils/utils.py',
     """    for key, item in new_dict.items():
        lvls += [key]
        if key not in ref_dict.keys():
            warnings.warn(f'Key unknown (and thus ignored): {".".join(lvls)}', AmpycloudWarning)
            continue
""",
     """    for key in list(new_dict.keys()):
        item = new_dict[key]
        lvls += [key]
        if key not in ref_dict.keys():
            warnings.warn(f'Key unknown (and thus ignored): {".".join(lvls)}', AmpycloudWarning)
            new_dict.pop(key)
            continue
""")],
   'unknown keys are removed from the caller\'s own dictionary')

# ------------------------------------------------------------------------------------------ C12
_m('c12-stray-global-read-okta0', 'C12', [
    ('src/ampycloud/data.py',
     """            if pdf.iloc[ind, pdf.columns.get_loc('n_hits')] <= self.prms['MAX_HITS_OKTA0']:""",
     """            if pdf.iloc[ind, pdf.columns.get_loc('n_hits')] <= \\
                    dynamic.AMPYCLOUD_PRMS['MAX_HITS_OKTA0']:""")],
   'one stage reads MAX_HITS_OKTA0 from the live global instead of the snapshot')

_m('c12-stray-global-read-gmm', 'C12', [
    ('src/ampycloud/data.py',
     """                **self.prms['LAYERING_PRMS']['gmm_kwargs'])""",
     """                **dynamic.AMPYCLOUD_PRMS['LAYERING_PRMS']['gmm_kwargs'])""")],
   'the layering reads gmm_kwargs from the live global instead of the snapshot')

_m('c12-stray-global-read-lowess', 'C12', [
    ('src/ampycloud/data.py',
     """                **self.prms['LOWESS'])""",
     """                **dynamic.AMPYCLOUD_PRMS['LOWESS'])""")],
   'the fluffiness computation reads LOWESS from the live global instead of the snapshot')

_m('c12-reset-from-cache', 'C12', [
    ('src/ampycloud/dynamic.py',
     """def get_default_prms() -> dict:
    \"\"\" Extract the default ampycloud parameters from the YAML configuration file. \"\"\"

    yaml = YAML(typ='safe')
    out = yaml.load(Path(__file__).parent / 'prms' / 'ampycloud_default_prms.yml')

    return out
""",
     """_DEFAULTS = None


def get_default_prms() -> dict:
    \"\"\" Extract the default ampycloud parameters from the YAML configuration file. \"\"\"

    global _DEFAULTS
    if _DEFAULTS is None:
        yaml = YAML(typ='safe')
        _DEFAULTS = yaml.load(Path(__file__).parent / 'prms' / 'ampycloud_default_prms.yml')

    return dict(_DEFAULTS)
""")],
   'defaults are parsed once and handed out as a shallow copy: nested in-place edits of the '
   'global poison every later reset')

_m('c12-set-prms-shallow-update', 'C12', [
    ('src/ampycloud/core.py',
     """    dynamic.AMPYCLOUD_PRMS = utils.adjust_nested_dict(dynamic.AMPYCLOUD_PRMS, user_prms)
""",
     """    for key in user_prms:
        if key not in dynamic.AMPYCLOUD_PRMS:
            warnings.warn(f'Key unknown (and thus ignored): {key}', AmpycloudWarning)
    dynamic.AMPYCLOUD_PRMS.update({key: item for key, item in user_prms.items()
                                   if key in dynamic.AMPYCLOUD_PRMS})
""")],
   'set_prms replaces whole top-level entries: a partial nested YAML drops sibling leaves')

_m('c12-unknown-keys-inserted', 'C12', [
    ('src/ampycloud/utils/utils.py',
     """            warnings.warn(f'Key unknown (and thus ignored): {".".join(lvls)}', AmpycloudWarning)
            continue
""",
     """            warnings.warn(f'Key unknown (and thus ignored): {".".join(lvls)}', AmpycloudWarning)
""")],
   'unknown keys are warned about but inserted all the same')

# ------------------------------------------------------------------------------------------ C20
_m('c20-style-use-not-context', 'C20', [
    ('src/ampycloud/plots/tools.py',
     """        with plt.style.context(prms):

            out = func(*args, **kwargs)
            return out
""",
     """        plt.style.use(prms)
        out = func(*args, **kwargs)
        return out
""")],
   'the style is applied globally instead of inside a context manager')

_m('c20-figure-not-closed', 'C20', [
    ('src/ampycloud/plots/core.py',
     """    if not show:
        adp.close_fig()
""",
     """    if not show and save_stem is not None:
        adp.close_fig()
""")],
   'the figure is only closed when it was saved')

_m('c20-marker-cycle-no-modulo', 'C20', [
    ('src/ampycloud/plots/diagnostics.py',
     """                                     marker=MRKS[ind % len(MRKS)],
                                     s=40, c='none', edgecolor='k', lw=1, zorder=10, alpha=0.5)""",
     """                                     marker=MRKS[ind],
                                     s=40, c='none', edgecolor='k', lw=1, zorder=10, alpha=0.5)""")],
   'layer markers indexed without the modulo: more than eight layers raise IndexError')

_m('c20-plot-sorts-chunk-data', 'C20', [
    ('src/ampycloud/plots/diagnostics.py',
     """        # Let's create an array of colors for *every* (sigh) point ...
        symb_clrs = np.array(['#000000'] * len(self._chunk.data))
""",
     """        # Draw the hits from the top down, so that low hits end up on top
        self._chunk.data.sort_values('height', ascending=False, inplace=True)

        # Let's create an array of colors for *every* (sigh) point ...
        symb_clrs = np.array(['#000000'] * len(self._chunk.data))
""")],
   'the raw-data plot sorts the chunk\'s data frame in place')
