"""Small realistic edits of ampycloud that keep its test suite green and break one property each.

Used only by the sensitivity self-test, on scratch copies of the repository made outside /repo
and /verif. Each mutant: (id, property, [(file, old, new), ...], what it does).
"""

MUTANTS = []


def _m(mid, prop, edits, what):
    MUTANTS.append({'id': mid, 'property': prop, 'edits': edits, 'what': what})


# ------------------------------------------------------------------------------------------ C13
_m('c13-gmm-global-rng', 'C13', [
    ('src/ampycloud/layer.py',
     """    for n_val in ncomp:
        models[n_val] = GaussianMixture(n_val, covariance_type='spherical',
                                        random_state=random_seed).fit(vals)
""",
     """    with utils.tmp_seed(random_seed):
        for n_val in ncomp:
            models[n_val] = GaussianMixture(n_val, covariance_type='spherical').fit(vals)
""")],
   'mixture fit under tmp_seed with the global generator (as the docstring still describes): '
   'sequentially reproducible, racy between threads')

_m('c13-setup-prms-inplace', 'C13', [
    ('src/ampycloud/data.py',
     """        # First, get a deep copy of the (current) default prms
        full_prms = copy.deepcopy(dynamic.AMPYCLOUD_PRMS)

        # Adjust the prms as warranted by the user
        if prms is not None:
            full_prms = utils.adjust_nested_dict(full_prms, prms)

        return full_prms
""",
     """        # Apply the user prms on top of the defaults, snapshot the outcome, restore the defaults
        if prms is None:
            return copy.deepcopy(dynamic.AMPYCLOUD_PRMS)
        backup = copy.deepcopy(dynamic.AMPYCLOUD_PRMS)
        try:
            utils.adjust_nested_dict(dynamic.AMPYCLOUD_PRMS, prms)
            full_prms = copy.deepcopy(dynamic.AMPYCLOUD_PRMS)
        finally:
            dynamic.AMPYCLOUD_PRMS.clear()
            dynamic.AMPYCLOUD_PRMS.update(backup)

        return full_prms
""")],
   '_setup_prms edits the global dictionary in place and restores it: fine alone, leaks into a '
   'chunk constructed by another thread inside the window')

_m('c13-module-scratch', 'C13', [
    ('src/ampycloud/data.py',
     """        # Finally, let's metarize these slices !
        self.metarize(
            which='slices',
        )
""",
     """        # Finally, let's metarize these slices !
        self.metarize(
            which='slices',
        )
        global _LAST_PAD
        _LAST_PAD = self.prms['GROUPING_PRMS']['height_pad_perc']/100
"""),
    ('src/ampycloud/data.py',
     """            height_pad = self.prms['GROUPING_PRMS']['height_pad_perc']/100
            m_lim = row['height_min'] - height_pad * row['thickness']""",
     """            height_pad = _LAST_PAD
            m_lim = row['height_min'] - height_pad * row['thickness']"""),
    ('src/ampycloud/data.py',
     """# Instantiate the module logger
logger = logging.getLogger(__name__)
""",
     """# Instantiate the module logger
logger = logging.getLogger(__name__)

_LAST_PAD = 0.1
""")],
   'a module-level scratch variable computed in find_slices and consumed in find_groups: '
   'correct for one chunk at a time, wrong when stages of two chunks interleave')

# ------------------------------------------------------------------------------------------ C14
_m('c14-regroup-guard-late', 'C14', [
    ('src/ampycloud/data.py',
     """        if self._layers is not None:
            raise AmpycloudError(
                'Layering already done.'
                ' If you find your groups now, you will loose the'
                ' layering information !'
            )

        # First, make sure""",
     """        # First, make sure""")],
   'the pinned-tree defect: find_groups after find_layers refuses only after rewriting ids')

_m('c14-no-prereq-guard-layers', 'C14', [
    ('src/ampycloud/data.py',
     """        if self._groups is None:
            raise AmpycloudError('Grouping not yet done. You cannot find layers without ' +
                                 'finding groups first !')
""",
     """        if self._slices is None:
            raise AmpycloudError('Grouping not yet done. You cannot find layers without ' +
                                 'finding groups first !')
""")],
   'find_layers tests the wrong prerequisite: after slicing only, it dies with a non-ampycloud '
   'exception instead of refusing')

_m('c14-reslice-drops-downstream', 'C14', [
    ('src/ampycloud/data.py',
     """        # Get a scaled **copy** of the data to feed the clustering algorithm
        tmp = self.data_rescaled(dt_mode='shift-and-scale',
                                 dt_kwargs={'scale': self.prms['SLICING_PRMS']['dt_scale']},""",
     """        # Anything derived from earlier slices is obsolete from here on
        self._groups = None
        self._layers = None

        # Get a scaled **copy** of the data to feed the clustering algorithm
        tmp = self.data_rescaled(dt_mode='shift-and-scale',
                                 dt_kwargs={'scale': self.prms['SLICING_PRMS']['dt_scale']},""")],
   'find_slices silently drops the groups and layers tables (but not the per-hit ids): neither '
   'a refusal nor the canonical result')
