"""Determinism self-test: the same run descriptor executed in fresh interpreters - twice under
PYTHONHASHSEED=0 and once under another hash seed - must give the same full result (event log:
operation lists, every schedule hash, step counts, outcome digests, counters).

  ./check selftest determinism [--n 16] [--seeds 0,1,2] [--full] [C13 C14 ...]

--full additionally runs the whole quick check with 5 and with 16 worker processes and compares
the evidence (everything except wall-clock fields).
"""
import concurrent.futures as cf
import importlib
import json
import os
import subprocess
import sys

from sim import kernel
from sim.cli import CHECKS


def canon(obj):
    if isinstance(obj, dict):
        return {str(k): canon(v) for k, v in sorted(obj.items(), key=lambda kv: str(kv[0]))}
    if isinstance(obj, (set, frozenset)):
        return sorted(canon(v) for v in obj)
    if isinstance(obj, (list, tuple)):
        return [canon(v) for v in obj]
    if isinstance(obj, float):
        return repr(obj)
    return obj


def exec_digest(argv):
    """Child mode: execute one run descriptor, print the digest of its full result."""
    mod = importlib.import_module(argv[0])
    run = json.loads(argv[1])
    if hasattr(mod, 'warmup'):
        mod.warmup()
    out = mod.execute(run)
    print('EXEC-DIGEST ' + kernel.sha(json.dumps(canon(out), sort_keys=True, default=str)))
    return 0


def _child(modname, run, hashseed):
    env = dict(os.environ)
    env.update(kernel.PINNED_ENV)
    env['PYTHONHASHSEED'] = str(hashseed)
    proc = subprocess.run([sys.executable, '-m', 'sim.cli', 'selftest', 'determinism',
                           '--exec', modname, json.dumps(run)], cwd=kernel.VERIF_DIR, env=env,
                          capture_output=True, text=True, timeout=3000, check=False)
    for line in proc.stdout.splitlines():
        if line.startswith('EXEC-DIGEST '):
            return line.split()[1]
    return 'ERROR:' + (proc.stdout + proc.stderr)[-600:]


def main(argv):
    if argv and argv[0] == '--exec':
        return exec_digest(argv[1:])
    n, seeds, full, props = 16, [0, 1], False, []
    it = iter(argv)
    for a in it:
        if a == '--n':
            n = int(next(it))
        elif a == '--seeds':
            seeds = [int(x) for x in next(it).split(',')]
        elif a == '--full':
            full = True
        else:
            props.append(a.upper())
    props = props or [p for p in sorted(CHECKS)
                      if os.path.exists(os.path.join(kernel.VERIF_DIR, 'checks', p.lower() + '.py'))]
    bad = 0
    total = 0
    with cf.ThreadPoolExecutor(max_workers=kernel.procs()) as pool:
        for prop in props:
            modname = CHECKS[prop]
            mod = importlib.import_module(modname)
            jobs = []
            for seed in seeds:
                runs = mod.plan('quick', seed)
                step = max(1, len(runs) // n)
                for run in runs[::step][:n]:
                    other = kernel.run_seed('hashseed', seed, json.dumps(run)) % (2 ** 32 - 1) + 1
                    futs = [pool.submit(_child, modname, run, hs) for hs in (0, 0, other)]
                    jobs.append((run, other, futs))
            nbad = 0
            for run, other, futs in jobs:
                digs = [f.result() for f in futs]
                total += 1
                if len(set(digs)) != 1 or digs[0].startswith('ERROR'):
                    nbad += 1
                    print(f'NON-DETERMINISTIC {prop} run={json.dumps(run)[:200]} '
                          f'digests(hashseed 0,0,{other})={digs}', flush=True)
            bad += nbad
            print(f'determinism {prop}: {len(jobs)} run descriptors x 3 fresh interpreters '
                  f'(hash seeds 0, 0, other): {nbad} divergent', flush=True)
    if full:
        import tempfile
        import shutil
        for prop in props:
            evs = []
            for nproc in (5, 16):
                base = tempfile.mkdtemp(prefix='ampy-det-')
                env = dict(os.environ, VERIF_OUT=base, VERIF_PROCS=str(nproc))
                subprocess.run([os.path.join(kernel.VERIF_DIR, 'check'), prop, 'quick'], env=env,
                               capture_output=True, text=True, check=False)
                with open(os.path.join(base, 'evidence', f'{prop}.json'), encoding='utf-8') as fil:
                    ev = json.load(fil)
                shutil.rmtree(base, ignore_errors=True)
                ev.pop('wall_s')
                for k in ('runs_per_hour', 'procs'):
                    ev['coverage'].pop(k, None)
                evs.append(json.dumps(ev, sort_keys=True))
            same = evs[0] == evs[1]
            total += 1
            bad += 0 if same else 1
            print(f'determinism {prop}: whole quick check with 5 vs 16 worker processes: '
                  f'{"identical evidence" if same else "EVIDENCE DIFFERS"}', flush=True)
    print(f'determinism: {total} comparisons, {bad} divergent')
    return 0 if bad == 0 else 2
