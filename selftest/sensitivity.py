"""Sensitivity self-test: every mutant of selftest/mutants.py must be reported by the check of
its property within the chosen tier, and the unmutated copy must be clean.

  ./check selftest sensitivity [--tier quick] [--tests] [--keep-going] [ids... | all | clean]

Scratch copies live under a mkdtemp directory outside /repo and /verif and are removed at once.
"""
import json
import os
import shutil
import subprocess
import sys
import tempfile
import time

from sim import kernel
from .mutants import MUTANTS


def make_copy(full=False):
    base = tempfile.mkdtemp(prefix='ampy-mut-')
    dst = os.path.join(base, 'repo')
    if full:
        shutil.copytree('/repo', dst, ignore=shutil.ignore_patterns('.git', '__pycache__',
                                                                     '*.png', '*.pdf', 'docs'))
    else:
        os.makedirs(dst)
        shutil.copytree('/repo/src', os.path.join(dst, 'src'),
                        ignore=shutil.ignore_patterns('__pycache__'))
    return base, dst


def apply(mut, dst):
    for rel, old, new in mut['edits']:
        pth = os.path.join(dst, rel)
        with open(pth, encoding='utf-8') as fil:
            txt = fil.read()
        if txt.count(old) != 1:
            raise kernel.HarnessError(f'mutant {mut["id"]}: anchor found {txt.count(old)}x in {rel}')
        with open(pth, 'w', encoding='utf-8') as fil:
            fil.write(txt.replace(old, new))


def seeded_changes():
    """Changes written by independent sub-agents, kept under /verif/seeded/<id>/."""
    root = os.path.join(kernel.VERIF_DIR, 'seeded')
    out = []
    for sid in sorted(os.listdir(root)):
        meta = os.path.join(root, sid, 'meta.json')
        if os.path.exists(meta):
            with open(meta, encoding='utf-8') as fil:
                rec = json.load(fil)
            # 'check_with': the check that is expected to report the change when that is not
            # the property it was written against (see the meta file for the reason)
            prop = rec.get('check_with', rec['property'])
            out.append({'id': 'seeded/' + sid, 'property': prop,
                        'patch': os.path.join(root, sid, 'patch.diff')})
    return out


def apply_patch(mut, dst):
    proc = subprocess.run(['git', 'apply', '--whitespace=nowarn', mut['patch']], cwd=dst,
                          capture_output=True, text=True, check=False)
    if proc.returncode != 0:
        raise kernel.HarnessError(f'{mut["id"]}: patch does not apply: {proc.stderr[-300:]}')


def run_check(prop, tier, dst, base, seed):
    env = dict(os.environ)
    env.update(VERIF_REPO=dst, VERIF_OUT=os.path.join(base, 'out'), VERIF_SEED=str(seed))
    t0 = time.time()
    proc = subprocess.run([os.path.join(kernel.VERIF_DIR, 'check'), prop, tier], env=env,
                          capture_output=True, text=True, check=False)
    lines = [ln for ln in proc.stdout.splitlines()
             if ln.startswith(('VIOLATION', 'KNOWN-FINDING', 'HARNESS-ERROR', '  violation'))]
    return proc.returncode, lines, time.time() - t0, proc.stdout[-1500:] + proc.stderr[-1500:]


def run_tests(dst):
    env = dict(os.environ)
    env['PYTHONPATH'] = os.path.join(dst, 'src')
    proc = subprocess.run([sys.executable, '-m', 'pytest', '-q', '-x', '-p', 'no:cacheprovider',
                           'test'], cwd=dst, env=env, capture_output=True, text=True, check=False)
    return proc.returncode == 0, proc.stdout.strip().splitlines()[-1:]


def main(argv):
    tier, tests, ids, seed = 'quick', False, [], kernel.master_seed()
    it = iter(argv)
    for a in it:
        if a == '--tier':
            tier = next(it)
        elif a == '--tests':
            tests = True
        else:
            ids.append(a)
    todo = []
    everything = list(MUTANTS) + seeded_changes()
    if not ids or 'all' in ids:
        todo = everything
    elif ids == ['seeded']:
        todo = seeded_changes()
    else:
        todo = [m for m in everything if m['id'] in ids or m['property'] in ids]
    report, ok = [], True
    if not ids or 'all' in ids or 'clean' in ids:
        props = sorted({m['property'] for m in todo}) or sorted({m['property'] for m in MUTANTS})
        base, dst = make_copy()
        try:
            for prop in props:
                code, lines, wall, tail = run_check(prop, tier, dst, base, seed)
                good = code == 0
                ok &= good
                report.append({'mutant': 'none (clean copy)', 'property': prop, 'exit': code,
                               'ok': good, 'wall_s': round(wall), 'lines': lines[:3]})
                print(json.dumps(report[-1]), flush=True)
        finally:
            shutil.rmtree(base, ignore_errors=True)
    for mut in todo:
        base, dst = make_copy(full=tests)
        try:
            if 'patch' in mut:
                apply_patch(mut, dst)
            else:
                apply(mut, dst)
            entry = {'mutant': mut['id'], 'property': mut['property']}
            if tests:
                entry['tests_pass'], entry['tests_tail'] = run_tests(dst)
            code, lines, wall, tail = run_check(mut['property'], tier, dst, base, seed)
            entry.update(exit=code, detected=(code == 1 and any(l.startswith('VIOLATION')
                                                                for l in lines)),
                         wall_s=round(wall), lines=lines[:4])
            if code not in (0, 1):
                entry['tail'] = tail
            ok &= entry['detected']
            report.append(entry)
            print(json.dumps(entry), flush=True)
        finally:
            shutil.rmtree(base, ignore_errors=True)
    print(f'sensitivity: {sum(1 for r in report if r.get("detected"))} of '
          f'{sum(1 for r in report if "detected" in r)} mutants detected; '
          f'clean copies ok: {all(r["ok"] for r in report if "ok" in r)}')
    return 0 if ok else 1
