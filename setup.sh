#!/bin/bash
# Offline set-up: nothing is downloaded or compiled; verify the interpreter and the repo's deps.
cd "$(dirname "$(readlink -f "$0")")" || exit 2
mkdir -p .work/mplconfig evidence replays
PY=${VERIF_PYTHON:-/venv/bin/python}
MPLBACKEND=Agg MPLCONFIGDIR="$PWD/.work/mplconfig" "$PY" - <<'PYEOF' || exit 2
import sys
sys.path.insert(0, '/repo/src')
import numpy, pandas, sklearn, statsmodels, matplotlib, ruamel.yaml, yaml  # noqa
import ampycloud
print('setup ok: python', sys.version.split()[0], 'ampycloud from', ampycloud.__file__)
PYEOF
